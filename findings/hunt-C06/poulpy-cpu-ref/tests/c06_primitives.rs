//! C06 (d): the sampling primitives themselves.
mod c06_common;
use c06_common::*;

use poulpy_cpu_ref::{
    FFT64Ref, NTT120Ref,
    reference::znx::{znx_add_normal_f64_ref, znx_fill_normal_f64_ref, znx_fill_uniform_ref},
};
use poulpy_hal::{
    api::{
        ModuleNew, ScratchOwnedAlloc, ScratchOwnedBorrow, VecZnxAddNormal, VecZnxBigAddNormal, VecZnxBigAlloc,
        VecZnxBigNormalize, VecZnxBigNormalizeTmpBytes, VecZnxFillNormal, VecZnxFillUniform,
    },
    layouts::{Module, NoiseInfos, ScratchOwned, VecZnx, ZnxView, ZnxViewMut},
    source::Source,
};
use rand_core::Rng;

const N_SAMPLES: usize = 1 << 14;

// ------------------------------------------------------------------------------------------------
// uniform digits
// ------------------------------------------------------------------------------------------------

#[test]
fn uniform_digits_every_base2k_ref() {
    for b in 1..=62usize {
        for s in 0..2usize {
            let mut src = Source::new(seed(0x11, 100 * s + b));
            let mut v = vec![0i64; N_SAMPLES];
            znx_fill_uniform_ref(b, &mut v, &mut src);
            check_uniform_digits(&format!("znx_fill_uniform_ref b={b} seed {s}"), &v, b);
        }
    }
}

#[test]
fn uniform_digits_determinism_and_seed_separation() {
    for b in [1usize, 2, 7, 12, 17, 19, 30, 52, 62] {
        let mut a = vec![0i64; N_SAMPLES];
        let mut a2 = vec![0i64; N_SAMPLES];
        let mut c = vec![0i64; N_SAMPLES];
        znx_fill_uniform_ref(b, &mut a, &mut Source::new(seed(1, b)));
        znx_fill_uniform_ref(b, &mut a2, &mut Source::new(seed(1, b)));
        znx_fill_uniform_ref(b, &mut c, &mut Source::new(seed(2, b)));
        assert_eq!(a, a2, "b={b}: same seed must give the same digits");
        check_independent_digits(&format!("uniform b={b} seeds 1 vs 2"), &a, &c, b);
        // output overwrites: previous content irrelevant
        let mut d = vec![0x5555_5555_5555i64; N_SAMPLES];
        znx_fill_uniform_ref(b, &mut d, &mut Source::new(seed(1, b)));
        assert_eq!(a, d, "b={b}: fill_uniform must overwrite");
    }
}

macro_rules! vec_znx_sampling_tests {
    ($modname:ident, $BE:ty, $bases:expr) => {
        mod $modname {
            use super::*;

            #[test]
            fn vec_znx_fill_uniform_all_limbs_selected_col_only() {
                let n = 1 << 12;
                let module: Module<$BE> = Module::<$BE>::new(n as u64);
                for &b in $bases.iter() {
                    let size = (128 / b).min(5).max(1);
                    let cols = 3;
                    for col in 0..cols {
                        let mut pool = DigitPool::default();
                        for r in 0..4 {
                            let mut v: VecZnx<Vec<u8>> = VecZnx::alloc(n, cols, size);
                            v.raw_mut().fill(7);
                            let mut src = Source::new(seed(3, 16 * r + col));
                            module.vec_znx_fill_uniform(b, &mut v, col, &mut src);
                            for c in 0..cols {
                                if c != col {
                                    for j in 0..size {
                                        assert!(v.at(c, j).iter().all(|&x| x == 7), "b={b}: column {c} touched");
                                    }
                                }
                            }
                            pool.push(0, &v, col..col + 1);
                            // limbs of one call are mutually independent
                            for j in 1..size {
                                check_independent_digits(
                                    &format!("fill_uniform b={b} limb 0 vs {j}"),
                                    v.at(col, 0),
                                    v.at(col, j),
                                    b,
                                );
                            }
                        }
                        pool.check(&format!("vec_znx_fill_uniform b={b} col={col}"), b);
                    }
                }
            }

            fn noise_grid() -> Vec<(f64, f64)> {
                vec![(1.0, 6.0), (3.2, 19.2), (3.2, 6.4), (3.2, 3.2), (8.0, 48.0), (100.0, 250.0)]
            }

            #[test]
            fn vec_znx_fill_and_add_normal_sigma_bound_limb() {
                let n = 1 << 12;
                let reps = 4;
                let module: Module<$BE> = Module::<$BE>::new(n as u64);
                for &b in $bases.iter() {
                    let size = (128 / b).min(4).max(1);
                    let kt = size * b;
                    let mut ks: Vec<usize> = vec![kt, b];
                    if size > 1 {
                        ks.extend_from_slice(&[kt - 1, kt - b / 2, kt - b + 1, b + 1, 2 * b]);
                    }
                    if b > 2 {
                        ks.push(b - 2);
                    }
                    ks.push(1);
                    for &k in &ks {
                        for (sigma, bound) in noise_grid() {
                            let limb = k.div_ceil(b) - 1;
                            let scale_log2 = (limb + 1) * b - k;
                            // keep scaled bound inside i64 / f64-exact territory
                            // keep the scaled bound inside i64 and the noise inside the torus (no wrap-around)
                            if (bound.log2() + scale_log2 as f64) > 60.0 || bound.log2() + 1.0 >= k as f64 {
                                continue;
                            }
                            let infos = NoiseInfos::new(k, sigma, bound).unwrap();
                            let label = format!("b={b} size={size} k={k} sigma={sigma} bound={bound}");
                            // fill
                            let mut errs: Vec<i128> = Vec::new();
                            let mut errs_add: Vec<i128> = Vec::new();
                            for r in 0..reps {
                                let mut v: VecZnx<Vec<u8>> = VecZnx::alloc(n, 2, size);
                                v.raw_mut().fill(3);
                                let mut src = Source::new(seed(5, r));
                                module.vec_znx_fill_normal(b, &mut v, 1, infos, &mut src);
                                for j in 0..size {
                                    assert!(v.at(0, j).iter().all(|&x| x == 3), "{label}: fill_normal touched column 0");
                                    if j != limb {
                                        assert!(
                                            v.at(1, j).iter().all(|&x| x == 0),
                                            "{label}: fill_normal left non-zero data in limb {j} != {limb}"
                                        );
                                    }
                                }
                                errs.extend(v.at(1, limb).iter().map(|&x| (x as i128) << (kt - (limb + 1) * b)));

                                // add: same stream on top of known content
                                let mut w: VecZnx<Vec<u8>> = VecZnx::alloc(n, 2, size);
                                w.raw_mut().fill(-5);
                                let mut src = Source::new(seed(5, r));
                                module.vec_znx_add_normal(b, &mut w, 1, infos, &mut src);
                                for j in 0..size {
                                    assert!(w.at(0, j).iter().all(|&x| x == -5), "{label}: add_normal touched column 0");
                                    if j != limb {
                                        assert!(w.at(1, j).iter().all(|&x| x == -5), "{label}: add_normal touched limb {j}");
                                    }
                                }
                                let added: Vec<i64> = w.at(1, limb).iter().map(|&x| x + 5).collect();
                                assert_eq!(added, v.at(1, limb), "{label}: add_normal and fill_normal draw different samples");
                                errs_add.extend(added.iter().map(|&x| (x as i128) << (kt - (limb + 1) * b)));
                            }
                            check_noise(&format!("fill_normal {label}"), &errs, kt, b, k, sigma, bound);
                            check_noise(&format!("add_normal {label}"), &errs_add, kt, b, k, sigma, bound);
                        }
                    }
                }
            }

            #[test]
            fn vec_znx_big_add_normal_sigma_bound_limb() {
                let n = 1 << 12;
                let reps = 4;
                let module: Module<$BE> = Module::<$BE>::new(n as u64);
                let mut scratch: ScratchOwned<$BE> = ScratchOwned::alloc(module.vec_znx_big_normalize_tmp_bytes());
                for &b in $bases.iter() {
                    let size = (128 / b).min(4).max(2);
                    if size * b > 128 {
                        continue;
                    }
                    let kt = size * b;
                    for &k in &[kt, kt - 1, kt - b + 1, b + 1, b, 2 * b - b / 2] {
                        for (sigma, bound) in noise_grid() {
                            let limb = k.div_ceil(b) - 1;
                            let scale_log2 = (limb + 1) * b - k;
                            // keep the scaled bound inside i64 and the noise inside the torus (no wrap-around)
                            if (bound.log2() + scale_log2 as f64) > 60.0 || bound.log2() + 1.0 >= k as f64 {
                                continue;
                            }
                            let infos = NoiseInfos::new(k, sigma, bound).unwrap();
                            let label = format!("big b={b} size={size} k={k} sigma={sigma} bound={bound}");
                            let mut errs: Vec<i128> = Vec::new();
                            for r in 0..reps {
                                let mut big = module.vec_znx_big_alloc(2, size);
                                let mut src = Source::new(seed(5, r));
                                module.vec_znx_big_add_normal(b, &mut big, 1, infos, &mut src);
                                let mut out: VecZnx<Vec<u8>> = VecZnx::alloc(n, 2, size);
                                for c in 0..2 {
                                    module.vec_znx_big_normalize(&mut out, b, 0, c, &big, b, c, scratch.borrow());
                                }
                                for j in 0..size {
                                    assert!(out.at(0, j).iter().all(|&x| x == 0), "{label}: column 0 touched");
                                }
                                let val = col_value(&out, 1, b);
                                errs.extend(val.iter().map(|&x| center(x, kt)));

                                // must be the very same stream as the small-vector sampler
                                let mut v: VecZnx<Vec<u8>> = VecZnx::alloc(n, 2, size);
                                let mut src = Source::new(seed(5, r));
                                module.vec_znx_fill_normal(b, &mut v, 1, infos, &mut src);
                                let want: Vec<i128> = col_value(&v, 1, b).iter().map(|&x| center(x, kt)).collect();
                                let have: Vec<i128> = val.iter().map(|&x| center(x, kt)).collect();
                                assert_eq!(have, want, "{label}: big sampler deviates from the small sampler");
                            }
                            check_noise(&label, &errs, kt, b, k, sigma, bound);
                        }
                    }
                }
            }
        }
    };
}

vec_znx_sampling_tests!(fft64, FFT64Ref, [1usize, 3, 12, 17, 19, 31, 50]);
vec_znx_sampling_tests!(ntt120, NTT120Ref, [2usize, 12, 17, 30, 52, 60]);

// ------------------------------------------------------------------------------------------------
// raw normal sampler
// ------------------------------------------------------------------------------------------------

#[test]
fn znx_normal_ref_sigma_and_bound() {
    for (sigma, bound) in [(1.0, 6.0), (3.2, 19.2), (3.2, 4.0), (3.2f64 * 65536.0, 19.2 * 65536.0), (1e9, 3e9)] {
        let mut v = vec![0i64; 1 << 16];
        znx_fill_normal_f64_ref(&mut v, sigma, bound, &mut Source::new(seed(9, 0)));
        let errs: Vec<i128> = v.iter().map(|&x| x as i128).collect();
        check_noise(&format!("znx_fill_normal sigma={sigma} bound={bound}"), &errs, 8, 8, 8, sigma, bound);
        let mut w = vec![11i64; 1 << 16];
        znx_add_normal_f64_ref(&mut w, sigma, bound, &mut Source::new(seed(9, 0)));
        assert!(w.iter().zip(v.iter()).all(|(a, b)| *a == *b + 11));
        // other seed: different samples, uncorrelated
        let mut u = vec![0i64; 1 << 16];
        znx_fill_normal_f64_ref(&mut u, sigma, bound, &mut Source::new(seed(9, 1)));
        let errs_u: Vec<i128> = u.iter().map(|&x| x as i128).collect();
        assert_ne!(u, v);
        check_independent_errors("normal seeds 0/1", &errs, &errs_u);
    }
}

// ------------------------------------------------------------------------------------------------
// Source
// ------------------------------------------------------------------------------------------------

fn stream(src: &mut Source, n: usize) -> Vec<u64> {
    (0..n).map(|_| src.next_u64()).collect()
}

fn check_u64_stream_pair_independent(label: &str, a: &[u64], b: &[u64]) {
    let n = a.len() as f64;
    assert!(a.iter().zip(b.iter()).all(|(x, y)| x != y), "{label}: coinciding 64-bit words");
    for bit in 0..64 {
        let ones = a.iter().zip(b.iter()).filter(|(x, y)| ((**x ^ **y) >> bit) & 1 == 1).count() as f64;
        assert!((ones - n / 2.0).abs() <= Z * 0.5 * n.sqrt(), "{label}: xor bit {bit} unbalanced: {ones}/{n}");
    }
}

fn check_u64_stream_uniform(label: &str, a: &[u64]) {
    let n = a.len() as f64;
    for bit in 0..64 {
        let ones = a.iter().filter(|x| (**x >> bit) & 1 == 1).count() as f64;
        assert!((ones - n / 2.0).abs() <= Z * 0.5 * n.sqrt(), "{label}: bit {bit} unbalanced: {ones}/{n}");
    }
    let mut hist = [0usize; 16];
    for x in a {
        hist[(x >> 60) as usize] += 1;
    }
    let exp = n / 16.0;
    let chi2: f64 = hist.iter().map(|&c| (c as f64 - exp).powi(2) / exp).sum();
    assert!(chi2 < CHI2_15_MAX, "{label}: chi2 {chi2}");
}

#[test]
fn source_branch_and_new_seed() {
    let n = 1 << 14;
    for s in 0..4usize {
        let sd = seed(0x33, s);
        // determinism
        let a = stream(&mut Source::new(sd), n);
        let a2 = stream(&mut Source::new(sd), n);
        assert_eq!(a, a2);
        check_u64_stream_uniform("parent", &a);

        // other seed
        let mut sd2 = sd;
        sd2[31] ^= 1;
        let b = stream(&mut Source::new(sd2), n);
        check_u64_stream_pair_independent("seed vs seed^1", &a, &b);

        // branch: child seed is what new_seed would have drawn, child is Source::new(seed)
        let mut p = Source::new(sd);
        let (cs, mut child) = p.branch();
        let mut p2 = Source::new(sd);
        let ns = p2.new_seed();
        assert_eq!(cs, ns, "branch() and new_seed() disagree");
        assert_ne!(cs, sd, "child seed equals parent seed");
        let c = stream(&mut child, n);
        let c_ref = stream(&mut Source::new(cs), n);
        assert_eq!(c, c_ref);
        check_u64_stream_uniform("child", &c);
        // parent after the branch, child, and an untouched parent are pairwise independent
        let p_after = stream(&mut p, n);
        check_u64_stream_pair_independent("child vs parent-after-branch", &c, &p_after);
        check_u64_stream_pair_independent("child vs parent-from-start", &c, &a);
        // the child stream must not be a shifted copy of the parent stream
        for lag in 1..64 {
            assert!(
                c[..n - lag].iter().zip(a[lag..].iter()).filter(|(x, y)| x == y).count() == 0,
                "child is a shifted copy of the parent (lag {lag})"
            );
            assert!(
                a[..n - lag].iter().zip(c[lag..].iter()).filter(|(x, y)| x == y).count() == 0,
                "parent is a shifted copy of the child (lag {lag})"
            );
        }

        // successive branches are distinct and pairwise independent
        let mut p = Source::new(sd);
        let mut seeds = Vec::new();
        let mut streams = Vec::new();
        for _ in 0..16 {
            let (s, mut ch) = p.branch();
            seeds.push(s);
            streams.push(stream(&mut ch, 1 << 12));
        }
        for i in 0..16 {
            for j in 0..i {
                assert_ne!(seeds[i], seeds[j]);
                check_u64_stream_pair_independent(&format!("branch {i} vs {j}"), &streams[i], &streams[j]);
            }
        }
        // the bytes of the derived seeds are themselves uniform
        let mut p = Source::new(sd);
        let mut bytes = Vec::new();
        for _ in 0..(1 << 12) {
            bytes.extend_from_slice(&p.new_seed());
        }
        let nb = bytes.len() as f64;
        for bit in 0..8 {
            let ones = bytes.iter().filter(|x| (**x >> bit) & 1 == 1).count() as f64;
            assert!((ones - nb / 2.0).abs() <= Z * 0.5 * nb.sqrt());
        }
    }
}

#[test]
fn source_next_u64n_uniform() {
    // the rejection sampler behind the uniform digits, also for non powers of two
    for max in [2u64, 3, 5, 16, 17, 1000, (1 << 17), (1 << 17) + 1, 1 << 52] {
        let mask = max.next_power_of_two() - 1;
        let mut src = Source::new(seed(0x44, max as usize & 0xffff));
        let n = 1 << 16;
        let v: Vec<u64> = (0..n).map(|_| src.next_u64n(max, mask)).collect();
        assert!(v.iter().all(|&x| x < max));
        let buckets = 16.min(max) as usize;
        let mut hist = vec![0usize; buckets];
        for &x in &v {
            hist[((x as u128 * buckets as u128) / max as u128) as usize] += 1;
        }
        // expected counts proportional to the number of values falling in each bucket
        let mut chi2 = 0.0;
        for (i, &h) in hist.iter().enumerate() {
            let lo = ((i as u128 * max as u128) + buckets as u128 - 1) / buckets as u128;
            let hi = (((i + 1) as u128 * max as u128) + buckets as u128 - 1) / buckets as u128;
            let exp = n as f64 * (hi - lo) as f64 / max as f64;
            chi2 += (h as f64 - exp).powi(2) / exp;
        }
        assert!(chi2 < CHI2_15_MAX, "next_u64n max={max}: chi2={chi2} hist={hist:?}");
    }
}

// ------------------------------------------------------------------------------------------------
// side observation (secret / pk-ephemeral sampling, not an encryption routine): documented Hamming weights
// ------------------------------------------------------------------------------------------------

#[test]
fn scalar_znx_fixed_hamming_weight_samplers() {
    use poulpy_hal::layouts::ScalarZnx;
    let n = 1024;
    for hw in [1usize, 16, 256, 512, 1024] {
        for s in 0..4 {
            let mut a: ScalarZnx<Vec<u8>> = ScalarZnx::alloc(n, 1);
            a.fill_ternary_hw(0, hw, &mut Source::new(seed(0x66, s)));
            let w = a.at(0, 0).iter().filter(|x| **x != 0).count();
            assert_eq!(w, hw, "fill_ternary_hw({hw}) produced weight {w}");
            assert!(a.at(0, 0).iter().all(|x| x.abs() <= 1));
            let mut b: ScalarZnx<Vec<u8>> = ScalarZnx::alloc(n, 1);
            b.fill_binary_hw(0, hw, &mut Source::new(seed(0x66, s)));
            let w = b.at(0, 0).iter().filter(|x| **x != 0).count();
            assert!(b.at(0, 0).iter().all(|x| *x == 0 || *x == 1));
            assert_eq!(w, hw, "fill_binary_hw({hw}) is documented to set exactly {hw} ones but set {w}");
        }
    }
}

// ------------------------------------------------------------------------------------------------
// negative controls: the acceptance bands must reject the failure modes C06 is about
// ------------------------------------------------------------------------------------------------

fn rejects<F: FnOnce() + std::panic::UnwindSafe>(f: F) -> bool {
    let prev = std::panic::take_hook();
    std::panic::set_hook(Box::new(|_| {}));
    let r = std::panic::catch_unwind(f).is_err();
    std::panic::set_hook(prev);
    r
}

#[test]
fn harness_negative_controls() {
    let n = 1 << 14;
    let gauss = |sigma: f64, bound: f64, sd: usize| -> Vec<i128> {
        let mut v = vec![0i64; n];
        znx_fill_normal_f64_ref(&mut v, sigma, bound, &mut Source::new(seed(0x77, sd)));
        v.iter().map(|&x| x as i128).collect()
    };
    // configured: sigma 3.2, bound 19.2, k = 30 in a 2x17-bit ciphertext (limb 1, scale 2^4)
    let (kt, b, k) = (34usize, 17usize, 30usize);
    let good: Vec<i128> = gauss(3.2 * 16.0, 19.2 * 16.0, 0);
    check_noise("control good", &good, kt, b, k, 3.2, 19.2);
    // 10% less noise
    let low: Vec<i128> = gauss(0.9 * 3.2 * 16.0, 19.2 * 16.0, 1);
    assert!(rejects(move || check_noise("low", &low, kt, b, k, 3.2, 19.2)));
    // noise one bit lower
    let shifted: Vec<i128> = gauss(3.2 * 8.0, 19.2 * 8.0, 2);
    assert!(rejects(move || check_noise("shifted", &shifted, kt, b, k, 3.2, 19.2)));
    // no noise
    let zero = vec![0i128; n];
    assert!(rejects(move || check_noise("zero", &zero, kt, b, k, 3.2, 19.2)));
    // tighter truncation than configured
    let trunc: Vec<i128> = gauss(3.2 * 16.0, 2.0 * 3.2 * 16.0, 3);
    assert!(rejects(move || check_noise("trunc", &trunc, kt, b, k, 3.2, 19.2)));
    // noise placed in a lower limb (not a multiple of the unit once the ciphertext has a third limb)
    let lower: Vec<i128> = gauss(3.2 * 16.0, 19.2 * 16.0, 4);
    assert!(rejects(move || check_noise("lower limb", &lower, 51, b, k, 3.2, 19.2)));

    // uniform digits
    for bb in [12usize, 17, 52] {
        let mut v = vec![0i64; n];
        znx_fill_uniform_ref(bb, &mut v, &mut Source::new(seed(0x78, bb)));
        check_uniform_digits("control good", &v, bb);
        let half: Vec<i64> = v.iter().map(|x| x >> 1).collect();
        assert!(rejects(move || check_uniform_digits("half range", &half, bb)));
        let even: Vec<i64> = v.iter().map(|x| x & !1).collect();
        assert!(rejects(move || check_uniform_digits("stuck low bit", &even, bb)));
        let biased: Vec<i64> = v.iter().enumerate().map(|(i, x)| if i % 8 == 0 { x.abs().min((1 << (bb - 1)) - 1) } else { *x }).collect();
        assert!(rejects(move || check_uniform_digits("6% sign bias", &biased, bb)));
        let mut w = vec![0i64; n];
        znx_fill_uniform_ref(bb, &mut w, &mut Source::new(seed(0x79, bb)));
        check_independent_digits("control good", &v, &w, bb);
        let v2 = v.clone();
        let v3 = v.clone();
        assert!(rejects(move || check_independent_digits("identical", &v2, &v3, bb)));
        // 1% shared positions
        let mut shared = w.clone();
        for i in (0..n).step_by(100) {
            shared[i] = v[i];
        }
        let v4 = v.clone();
        assert!(rejects(move || check_independent_digits("1% shared", &v4, &shared, bb)));
        // negated copy (correlated)
        let neg: Vec<i64> = v.iter().map(|x| -x - 1).collect();
        let v5 = v.clone();
        assert!(rejects(move || check_independent_digits("negated", &v5, &neg, bb)));
    }
    // errors
    let e1 = gauss(3.2, 19.2, 5);
    let e2 = gauss(3.2, 19.2, 6);
    check_independent_errors("control good", &e1, &e2);
    let e3: Vec<i128> = e1.iter().zip(e2.iter()).map(|(a, b)| if b.abs() > 3 { *a } else { *b }).collect();
    let e1c = e1.clone();
    assert!(rejects(move || check_independent_errors("partly shared", &e1c, &e3)));
}
