//! C06 (a)(b)(c) for every matrix-shaped ciphertext / key: GGLWE, GGSW, GLWE switching key, automorphism key,
//! tensor key, GGLWE-to-GGSW key (standard and compressed), LWE switching key, GLWE<->LWE keys.
mod c06_common;
use c06_common::*;

use poulpy_core::{
    GGLWECompressedEncryptSk, GGLWEEncryptSk, GGLWEToGGSWKeyCompressedEncryptSk, GGLWEToGGSWKeyEncryptSk,
    GGSWCompressedEncryptSk, GGSWEncryptSk, GLWEAutomorphismKeyCompressedEncryptSk, GLWEAutomorphismKeyEncryptSk,
    GLWESwitchingKeyCompressedEncryptSk, GLWESwitchingKeyEncryptSk, GLWETensorKeyCompressedEncryptSk, GLWETensorKeyEncryptSk,
    GLWEToLWESwitchingKeyEncryptSk, LWESwitchingKeyEncrypt, LWEToGLWESwitchingKeyEncryptSk,
    layouts::{
        GGLWE, GGLWECompressedSeed, GGLWECompressedToRef, GGLWELayout, GGLWEToGGSWKey, GGLWEToGGSWKeyLayout, GGLWEToRef, GGSW,
        GGSWCompressedSeed, GGSWLayout, GLWEAutomorphismKey, GLWEAutomorphismKeyLayout, GLWESecretPreparedFactory,
        GLWESwitchingKey, GLWESwitchingKeyLayout, GLWETensorKey, GLWETensorKeyLayout, GLWEToLWEKey, GLWEToLWEKeyLayout,
        LWESwitchingKey, LWESwitchingKeyLayout, LWEToGLWEKey, LWEToGLWEKeyLayout,
        compressed::{
            GGLWECompressed, GGLWEDecompress, GGLWEToGGSWKeyCompressed, GGLWEToGGSWKeyDecompress, GGSWCompressed,
            GGSWDecompress, GLWEAutomorphismKeyCompressed, GLWEAutomorphismKeyDecompress, GLWESwitchingKeyCompressed,
            GLWESwitchingKeyDecompress, GLWETensorKeyCompressed, GLWETensorKeyDecompress,
        },
    },
};
use poulpy_cpu_ref::{FFT64Ref, NTT120Ref};
use poulpy_hal::{
    api::{ModuleNew, ScratchOwnedAlloc, ScratchOwnedBorrow, VecZnxFillUniform},
    layouts::{Module, NoiseInfos, ScalarZnx, ScratchOwned, VecZnx, ZnxViewMut},
    source::Source,
};

#[derive(Clone, Copy, Debug, PartialEq)]
enum Kind {
    Gglwe,
    GglweC,
    Ggsw,
    GgswC,
    Ksk,
    KskC,
    Atk,
    AtkC,
    Tsk,
    TskC,
    G2G,
    G2GC,
    LweKsk,
    GlweToLwe,
    LweToGlwe,
}

const ALL_KINDS: [Kind; 15] = [
    Kind::Gglwe,
    Kind::GglweC,
    Kind::Ggsw,
    Kind::GgswC,
    Kind::Ksk,
    Kind::KskC,
    Kind::Atk,
    Kind::AtkC,
    Kind::Tsk,
    Kind::TskC,
    Kind::G2G,
    Kind::G2GC,
    Kind::LweKsk,
    Kind::GlweToLwe,
    Kind::LweToGlwe,
];

impl Kind {
    fn compressed(&self) -> bool {
        matches!(self, Kind::GglweC | Kind::GgswC | Kind::KskC | Kind::AtkC | Kind::TskC | Kind::G2GC)
    }
    fn uses_rank_in(&self) -> bool {
        matches!(self, Kind::Gglwe | Kind::GglweC | Kind::Ksk | Kind::KskC | Kind::GlweToLwe)
    }
    fn single_rank(&self) -> bool {
        matches!(self, Kind::LweKsk)
    }
}

#[derive(Clone, Copy, Debug)]
struct Seeds {
    xs_a: [u8; 32],
    xs_b: [u8; 32],
    xa: [u8; 32],
    xe: [u8; 32],
    pt: [u8; 32],
}

fn seeds(r: usize) -> Seeds {
    Seeds {
        xs_a: seed(0x11, r),
        xs_b: seed(0x12, r),
        xa: seed(0x13, r),
        xe: seed(0x14, r),
        pt: seed(0x15, r),
    }
}

#[derive(Clone, Copy, Debug)]
struct Case {
    n: usize,
    b: usize,
    size: usize,
    dnum: usize,
    dsize: usize,
    k_noise: usize,
    rank_in: usize,
    rank_out: usize,
    sigma: f64,
    bound: f64,
    dist: SkDist,
    kind: Kind,
    p: i64,
}

struct MatOut {
    /// [cell][col][limb][coeff]
    cells: Vec<Vec<Vec<Vec<i64>>>>,
    /// [cell][coeff]
    errs: Vec<Vec<i128>>,
    /// stored seeds (compressed forms), one per cell
    stored: Vec<[u8; 32]>,
}

fn mod_inv(p: i64, m: i64) -> i64 {
    let p = p.rem_euclid(m);
    (1..m).step_by(2).find(|x| (x * p) % m == 1).expect("no inverse")
}

fn pad_aut_m1(s: &[i64], n: usize) -> Vec<i64> {
    let mut v = vec![0i64; n];
    v[..s.len()].copy_from_slice(s);
    automorphism_small(&v, -1)
}

/// Extracts cells and exact errors from a GGLWE-shaped matrix.
/// message of cell (row, col_in) = pts[col_in] * 2^(-(row+1)*dsize*b)
fn extract_gglwe(g: &GGLWE<&[u8]>, c: &Case, sk_out: &[Vec<i64>], pts: &[Vec<i64>], out: &mut MatOut) {
    let kt = c.size * c.b;
    for row in 0..c.dnum {
        for (col_in, pt) in pts.iter().enumerate() {
            let ct = g.at(row, col_in);
            let phase = glwe_phase(ct.data(), c.b, sk_out);
            let sh = kt - (row + 1) * c.dsize * c.b;
            let m: Vec<u128> = pt.iter().map(|&x| shl((x as i128) as u128, sh)).collect();
            out.errs.push(sub_center(&phase, &m, kt));
            out.cells.push(all_limbs(ct.data()));
        }
    }
}

macro_rules! matrix_tests {
    ($modname:ident, $BE:ty, $layouts:expr, $n:expr, $with_g2gc:expr, $big:expr) => {
        mod $modname {
            use super::*;

            fn encrypt(module: &Module<$BE>, c: &Case, s: &Seeds) -> MatOut {
                let (n, b, size) = (c.n, c.b, c.size);
                let kt = size * b;
                let nn = |x: usize| -> u32 { x as u32 };
                let noise = NoiseInfos::new(c.k_noise, c.sigma, c.bound).unwrap();
                let mut out = MatOut {
                    cells: Vec::new(),
                    errs: Vec::new(),
                    stored: Vec::new(),
                };

                let glayout = |rank_in: usize, rank_out: usize| GGLWELayout {
                    n: nn(n).into(),
                    base2k: nn(b).into(),
                    k: nn(kt).into(),
                    rank_in: nn(rank_in).into(),
                    rank_out: nn(rank_out).into(),
                    dnum: nn(c.dnum).into(),
                    dsize: nn(c.dsize).into(),
                };

                // generous scratch
                let big = glayout(6, 3);
                let mut scratch: ScratchOwned<$BE> = ScratchOwned::alloc(
                    module.gglwe_encrypt_sk_tmp_bytes(&big) * 2
                        + module.glwe_tensor_key_encrypt_sk_tmp_bytes(&glayout(3, 3))
                        + GGLWEToGGSWKeyEncryptSk::gglwe_to_ggsw_key_encrypt_sk_tmp_bytes(module, &glayout(3, 3))
                        + (1 << 20),
                );

                let mut xe = Source::new(s.xe);
                let mut xa = Source::new(s.xa);

                match c.kind {
                    Kind::Gglwe | Kind::GglweC => {
                        let lay = glayout(c.rank_in, c.rank_out);
                        let (sk, sk_raw) = make_glwe_sk(n, c.rank_out, c.dist, s.xs_a);
                        let mut skp = module.glwe_secret_prepared_alloc(nn(c.rank_out).into());
                        module.glwe_secret_prepare(&mut skp, &sk);
                        let mut pt: ScalarZnx<Vec<u8>> = ScalarZnx::alloc(n, c.rank_in);
                        let mut sp = Source::new(s.pt);
                        for i in 0..c.rank_in {
                            pt.fill_ternary_prob(i, 0.5, &mut sp);
                        }
                        let pts: Vec<Vec<i64>> = (0..c.rank_in).map(|i| poulpy_hal::layouts::ZnxView::at(&pt, i, 0).to_vec()).collect();
                        let mut g: GGLWE<Vec<u8>> = GGLWE::alloc_from_infos(&lay);
                        g.data_mut().raw_mut().fill(0x1234_5678);
                        if c.kind == Kind::Gglwe {
                            module.gglwe_encrypt_sk(&mut g, &pt, &skp, &noise, &mut xe, &mut xa, scratch.borrow());
                        } else {
                            let mut gc: GGLWECompressed<Vec<u8>> = GGLWECompressed::alloc_from_infos(&lay);
                            module.gglwe_compressed_encrypt_sk(&mut gc, &pt, &skp, s.xa, &noise, &mut xe, scratch.borrow());
                            module.decompress_gglwe(&mut g, &gc);
                            let sd = gc.seed();
                            for row in 0..c.dnum {
                                for col in 0..c.rank_in {
                                    out.stored.push(sd[c.rank_in * row + col]);
                                }
                            }
                        }
                        extract_gglwe(&g.to_ref(), c, &sk_raw, &pts, &mut out);
                    }
                    Kind::Ggsw | Kind::GgswC => {
                        let rank = c.rank_out;
                        let lay = GGSWLayout {
                            n: nn(n).into(),
                            base2k: nn(b).into(),
                            k: nn(kt).into(),
                            rank: nn(rank).into(),
                            dnum: nn(c.dnum).into(),
                            dsize: nn(c.dsize).into(),
                        };
                        let (sk, sk_raw) = make_glwe_sk(n, rank, c.dist, s.xs_a);
                        let mut skp = module.glwe_secret_prepared_alloc(nn(rank).into());
                        module.glwe_secret_prepare(&mut skp, &sk);
                        let mut pt: ScalarZnx<Vec<u8>> = ScalarZnx::alloc(n, 1);
                        pt.fill_ternary_prob(0, 0.5, &mut Source::new(s.pt));
                        let pt_raw = poulpy_hal::layouts::ZnxView::at(&pt, 0, 0).to_vec();
                        let mut g: GGSW<Vec<u8>> = GGSW::alloc_from_infos(&lay);
                        if c.kind == Kind::Ggsw {
                            module.ggsw_encrypt_sk(&mut g, &pt, &skp, &noise, &mut xe, &mut xa, scratch.borrow());
                        } else {
                            let mut gc: GGSWCompressed<Vec<u8>> = GGSWCompressed::alloc_from_infos(&lay);
                            module.ggsw_compressed_encrypt_sk(&mut gc, &pt, &skp, s.xa, &noise, &mut xe, scratch.borrow());
                            module.decompress_ggsw(&mut g, &gc);
                            out.stored = gc.seed().clone();
                        }
                        for row in 0..c.dnum {
                            for col in 0..rank + 1 {
                                let ct = g.at(row, col);
                                let phase = glwe_phase(ct.data(), b, &sk_raw);
                                let msg = if col == 0 {
                                    pt_raw.clone()
                                } else {
                                    negacyclic_small(&pt_raw, &sk_raw[col - 1])
                                };
                                let sh = kt - (row + 1) * c.dsize * b;
                                let m: Vec<u128> = msg.iter().map(|&x| shl((x as i128) as u128, sh)).collect();
                                out.errs.push(sub_center(&phase, &m, kt));
                                out.cells.push(all_limbs(ct.data()));
                            }
                        }
                    }
                    Kind::Ksk | Kind::KskC => {
                        let lay = GLWESwitchingKeyLayout {
                            n: nn(n).into(),
                            base2k: nn(b).into(),
                            k: nn(kt).into(),
                            rank_in: nn(c.rank_in).into(),
                            rank_out: nn(c.rank_out).into(),
                            dnum: nn(c.dnum).into(),
                            dsize: nn(c.dsize).into(),
                        };
                        let (sk_in, sk_in_raw) = make_glwe_sk(n, c.rank_in, c.dist, s.xs_a);
                        let (sk_out, sk_out_raw) = make_glwe_sk(n, c.rank_out, c.dist, s.xs_b);
                        let mut g: GLWESwitchingKey<Vec<u8>> = GLWESwitchingKey::alloc_from_infos(&lay);
                        if c.kind == Kind::Ksk {
                            module.glwe_switching_key_encrypt_sk(&mut g, &sk_in, &sk_out, &noise, &mut xe, &mut xa, scratch.borrow());
                        } else {
                            let mut gc: GLWESwitchingKeyCompressed<Vec<u8>> = GLWESwitchingKeyCompressed::alloc_from_infos(&lay);
                            module.glwe_switching_key_compressed_encrypt_sk(
                                &mut gc,
                                &sk_in,
                                &sk_out,
                                s.xa,
                                &noise,
                                &mut xe,
                                scratch.borrow(),
                            );
                            module.decompress_glwe_switching_key(&mut g, &gc);
                            let r = gc.to_ref();
                            let sd = r.seed();
                            for row in 0..c.dnum {
                                for col in 0..c.rank_in {
                                    out.stored.push(sd[c.rank_in * row + col]);
                                }
                            }
                        }
                        extract_gglwe(&g.to_ref(), c, &sk_out_raw, &sk_in_raw, &mut out);
                    }
                    Kind::Atk | Kind::AtkC => {
                        let rank = c.rank_out;
                        let lay = GLWEAutomorphismKeyLayout {
                            n: nn(n).into(),
                            base2k: nn(b).into(),
                            k: nn(kt).into(),
                            rank: nn(rank).into(),
                            dnum: nn(c.dnum).into(),
                            dsize: nn(c.dsize).into(),
                        };
                        let (sk, sk_raw) = make_glwe_sk(n, rank, c.dist, s.xs_a);
                        let p_inv = mod_inv(c.p, 2 * n as i64);
                        let sk_out_raw: Vec<Vec<i64>> = sk_raw.iter().map(|x| automorphism_small(x, p_inv)).collect();
                        let mut g: GLWEAutomorphismKey<Vec<u8>> = GLWEAutomorphismKey::alloc_from_infos(&lay);
                        if c.kind == Kind::Atk {
                            module.glwe_automorphism_key_encrypt_sk(&mut g, c.p, &sk, &noise, &mut xe, &mut xa, scratch.borrow());
                        } else {
                            let mut gc: GLWEAutomorphismKeyCompressed<Vec<u8>> =
                                GLWEAutomorphismKeyCompressed::alloc_from_infos(&lay);
                            module.glwe_automorphism_key_compressed_encrypt_sk(
                                &mut gc,
                                c.p,
                                &sk,
                                s.xa,
                                &noise,
                                &mut xe,
                                scratch.borrow(),
                            );
                            module.decompress_automorphism_key(&mut g, &gc);
                            let r = gc.to_ref();
                            let sd = r.seed();
                            for row in 0..c.dnum {
                                for col in 0..rank {
                                    out.stored.push(sd[rank * row + col]);
                                }
                            }
                        }
                        extract_gglwe(&g.to_ref(), c, &sk_out_raw, &sk_raw, &mut out);
                    }
                    Kind::Tsk | Kind::TskC => {
                        let rank = c.rank_out;
                        let lay = GLWETensorKeyLayout {
                            n: nn(n).into(),
                            base2k: nn(b).into(),
                            k: nn(kt).into(),
                            rank: nn(rank).into(),
                            dnum: nn(c.dnum).into(),
                            dsize: nn(c.dsize).into(),
                        };
                        let (sk, sk_raw) = make_glwe_sk(n, rank, c.dist, s.xs_a);
                        let mut pts = Vec::new();
                        for i in 0..rank {
                            for j in i..rank {
                                pts.push(negacyclic_small(&sk_raw[i], &sk_raw[j]));
                            }
                        }
                        let mut g: GLWETensorKey<Vec<u8>> = GLWETensorKey::alloc_from_infos(&lay);
                        if c.kind == Kind::Tsk {
                            module.glwe_tensor_key_encrypt_sk(&mut g, &sk, &noise, &mut xe, &mut xa, scratch.borrow());
                        } else {
                            let mut gc: GLWETensorKeyCompressed<Vec<u8>> = GLWETensorKeyCompressed::alloc_from_infos(&lay);
                            module.glwe_tensor_key_compressed_encrypt_sk(&mut gc, &sk, s.xa, &noise, &mut xe, scratch.borrow());
                            module.decompress_tensor_key(&mut g, &gc);
                            let r = gc.to_ref();
                            let sd = r.seed();
                            for row in 0..c.dnum {
                                for col in 0..pts.len() {
                                    out.stored.push(sd[pts.len() * row + col]);
                                }
                            }
                        }
                        extract_gglwe(&g.to_ref(), c, &sk_raw, &pts, &mut out);
                    }
                    Kind::G2G | Kind::G2GC => {
                        let rank = c.rank_out;
                        let lay = GGLWEToGGSWKeyLayout {
                            n: nn(n).into(),
                            base2k: nn(b).into(),
                            k: nn(kt).into(),
                            rank: nn(rank).into(),
                            dnum: nn(c.dnum).into(),
                            dsize: nn(c.dsize).into(),
                        };
                        let (sk, sk_raw) = make_glwe_sk(n, rank, c.dist, s.xs_a);
                        let mut g: GGLWEToGGSWKey<Vec<u8>> = GGLWEToGGSWKey::alloc_from_infos(&lay);
                        let mut gc_opt = None;
                        if c.kind == Kind::G2G {
                            GGLWEToGGSWKeyEncryptSk::gglwe_to_ggsw_key_encrypt_sk(
                                module,
                                &mut g,
                                &sk,
                                &noise,
                                &mut xe,
                                &mut xa,
                                scratch.borrow(),
                            );
                        } else {
                            let mut gc: GGLWEToGGSWKeyCompressed<Vec<u8>> = GGLWEToGGSWKeyCompressed::alloc_from_infos(&lay);
                            GGLWEToGGSWKeyCompressedEncryptSk::gglwe_to_ggsw_key_encrypt_sk(
                                module,
                                &mut gc,
                                &sk,
                                s.xa,
                                &noise,
                                &mut xe,
                                scratch.borrow(),
                            );
                            module.decompress_gglwe_to_ggsw_key(&mut g, &gc);
                            gc_opt = Some(gc);
                        }
                        for i in 0..rank {
                            let pts: Vec<Vec<i64>> = (0..rank).map(|j| negacyclic_small(&sk_raw[i], &sk_raw[j])).collect();
                            extract_gglwe(&g.at(i).to_ref(), c, &sk_raw, &pts, &mut out);
                            if let Some(gc) = &gc_opt {
                                let sd = gc.at(i).seed();
                                for row in 0..c.dnum {
                                    for col in 0..rank {
                                        out.stored.push(sd[rank * row + col]);
                                    }
                                }
                            }
                        }
                    }
                    Kind::LweKsk => {
                        let lay = LWESwitchingKeyLayout {
                            n: nn(n).into(),
                            base2k: nn(b).into(),
                            k: nn(kt).into(),
                            dnum: nn(c.dnum).into(),
                        };
                        let n_in = n / 2 + 3;
                        let n_out = n / 4 + 1;
                        let (sk_in, sk_in_raw) = make_lwe_sk(n_in, lwe_dist(c.dist, n_in), s.xs_a);
                        let (sk_out, sk_out_raw) = make_lwe_sk(n_out, lwe_dist(c.dist, n_out), s.xs_b);
                        let mut g: LWESwitchingKey<Vec<u8>> = LWESwitchingKey::alloc_from_infos(&lay);
                        module.lwe_switching_key_encrypt_sk(&mut g, &sk_in, &sk_out, &noise, &mut xe, &mut xa, scratch.borrow());
                        extract_gglwe(
                            &g.to_ref(),
                            c,
                            &[pad_aut_m1(&sk_out_raw, n)],
                            &[pad_aut_m1(&sk_in_raw, n)],
                            &mut out,
                        );
                    }
                    Kind::GlweToLwe => {
                        let lay = GLWEToLWEKeyLayout {
                            n: nn(n).into(),
                            base2k: nn(b).into(),
                            k: nn(kt).into(),
                            rank_in: nn(c.rank_in).into(),
                            dnum: nn(c.dnum).into(),
                        };
                        let n_lwe = n / 2 + 1;
                        let (sk_lwe, sk_lwe_raw) = make_lwe_sk(n_lwe, lwe_dist(c.dist, n_lwe), s.xs_b);
                        let (sk_glwe, sk_glwe_raw) = make_glwe_sk(n, c.rank_in, c.dist, s.xs_a);
                        let mut g: GLWEToLWEKey<Vec<u8>> = GLWEToLWEKey::alloc_from_infos(&lay);
                        module.glwe_to_lwe_key_encrypt_sk(&mut g, &sk_lwe, &sk_glwe, &noise, &mut xe, &mut xa, scratch.borrow());
                        extract_gglwe(&g.to_ref(), c, &[pad_aut_m1(&sk_lwe_raw, n)], &sk_glwe_raw, &mut out);
                    }
                    Kind::LweToGlwe => {
                        let lay = LWEToGLWEKeyLayout {
                            n: nn(n).into(),
                            base2k: nn(b).into(),
                            k: nn(kt).into(),
                            rank_out: nn(c.rank_out).into(),
                            dnum: nn(c.dnum).into(),
                        };
                        let n_lwe = n / 2 + 1;
                        let (sk_lwe, sk_lwe_raw) = make_lwe_sk(n_lwe, lwe_dist(c.dist, n_lwe), s.xs_a);
                        let (sk_glwe, sk_glwe_raw) = make_glwe_sk(n, c.rank_out, c.dist, s.xs_b);
                        let mut skp = module.glwe_secret_prepared_alloc(nn(c.rank_out).into());
                        module.glwe_secret_prepare(&mut skp, &sk_glwe);
                        let mut g: LWEToGLWEKey<Vec<u8>> = LWEToGLWEKey::alloc_from_infos(&lay);
                        module.lwe_to_glwe_key_encrypt_sk(&mut g, &sk_lwe, &skp, &noise, &mut xe, &mut xa, scratch.borrow());
                        extract_gglwe(&g.to_ref(), c, &sk_glwe_raw, &[pad_aut_m1(&sk_lwe_raw, n)], &mut out);
                    }
                }
                out
            }

            fn lwe_dist(d: SkDist, n: usize) -> SkDist {
                match d {
                    SkDist::TernaryHw(_) => SkDist::TernaryHw(n / 4),
                    SkDist::BinaryHw(_) => SkDist::BinaryHw(n / 2),
                    SkDist::BinaryBlock(_) => SkDist::BinaryProb(0.5),
                    d => d,
                }
            }

            fn run_case(module: &Module<$BE>, c: &Case) {
                let label = format!("{} {c:?}", stringify!($BE));
                let kt = c.size * c.b;
                let base = encrypt(module, c, &seeds(0));
                let ncells = base.cells.len();
                let reps = ((1usize << 14).div_ceil(c.n * ncells)).max(2);
                let ncols = base.cells[0].len();

                let mut pool = DigitPool::default();
                let mut errs_cell: Vec<Vec<i128>> = vec![Vec::new(); ncells];
                for r in 0..reps {
                    let tmp;
                    let out = if r == 0 {
                        &base
                    } else {
                        tmp = encrypt(module, c, &seeds(r));
                        &tmp
                    };
                    for (cell, cols) in out.cells.iter().enumerate() {
                        for (col, limbs) in cols.iter().enumerate() {
                            for (j, l) in limbs.iter().enumerate() {
                                pool.push_raw(cell, col, j, l);
                            }
                        }
                        errs_cell[cell].extend_from_slice(&out.errs[cell]);
                    }
                }
                // (a) per cell and pooled
                let mut all = Vec::new();
                for (cell, e) in errs_cell.iter().enumerate() {
                    check_noise(&format!("{label} cell {cell}"), e, kt, c.b, c.k_noise, c.sigma, c.bound);
                    all.extend_from_slice(e);
                }
                assert!(all.len() >= 1 << 14);
                check_noise(&format!("{label} pooled"), &all, kt, c.b, c.k_noise, c.sigma, c.bound);
                // (b) every limb of every column of every cell
                pool.check(&label, c.b);

                // (c) no two cells/columns share a mask stream, no two cells share an error stream
                for c1 in 0..ncells {
                    for c2 in 0..=c1 {
                        for col1 in 1..ncols {
                            for col2 in 1..ncols {
                                if c1 == c2 && col2 >= col1 {
                                    continue;
                                }
                                for j in [0, c.size - 1] {
                                    check_independent_digits(
                                        &format!("{label}: mask ({c1},{col1}) vs ({c2},{col2}) limb {j}"),
                                        &base.cells[c1][col1][j],
                                        &base.cells[c2][col2][j],
                                        c.b,
                                    );
                                }
                            }
                        }
                        if c1 != c2 {
                            assert_ne!(base.errs[c1], base.errs[c2], "{label}: cells {c1} and {c2} share their error");
                            check_independent_errors(&format!("{label}: errors of cells {c1},{c2}"), &base.errs[c1], &base.errs[c2]);
                        }
                    }
                }
                if c.kind.compressed() {
                    assert_eq!(base.stored.len(), ncells);
                    for i in 0..ncells {
                        for j in 0..i {
                            assert_ne!(base.stored[i], base.stored[j], "{label}: cells {i},{j} share a mask seed");
                        }
                        assert_ne!(base.stored[i], seeds(0).xa, "{label}: cell {i} reuses the root seed");
                        // decompressed mask == stream of the stored seed, nothing else
                        let mut v: VecZnx<Vec<u8>> = VecZnx::alloc(c.n, ncols, c.size);
                        let mut src = Source::new(base.stored[i]);
                        for col in 1..ncols {
                            module.vec_znx_fill_uniform(c.b, &mut v, col, &mut src);
                            assert_eq!(limbs_of(&v, col), base.cells[i][col], "{label}: cell {i} mask is not the stream of its seed");
                        }
                    }
                }

                // determinism and seed separation
                let s0 = seeds(0);
                let again = encrypt(module, c, &s0);
                assert_eq!(base.cells, again.cells, "{label}: not deterministic");
                assert_eq!(base.stored, again.stored);

                let masks = |o: &MatOut| -> Vec<Vec<Vec<Vec<i64>>>> { o.cells.iter().map(|cell| cell[1..].to_vec()).collect() };
                let bodies = |o: &MatOut| -> Vec<Vec<Vec<i64>>> { o.cells.iter().map(|cell| cell[0].clone()).collect() };

                // other plaintext / other secrets
                for which in 0..3 {
                    let mut s = s0;
                    match which {
                        0 => s.pt = seed(0x71, 5),
                        1 => s.xs_a = seed(0x72, 5),
                        _ => s.xs_b = seed(0x73, 5),
                    }
                    let o = encrypt(module, c, &s);
                    assert_eq!(masks(&base), masks(&o), "{label}: plaintext/secret change ({which}) altered a mask");
                    assert_eq!(base.errs, o.errs, "{label}: plaintext/secret change ({which}) altered the error");
                    assert_eq!(base.stored, o.stored);
                }
                // other error seed
                {
                    let mut s = s0;
                    s.xe = seed(0x74, 5);
                    let o = encrypt(module, c, &s);
                    assert_eq!(masks(&base), masks(&o), "{label}: the error seed altered a mask");
                    assert_eq!(base.stored, o.stored);
                    let (b0, b1) = (bodies(&base), bodies(&o));
                    for cell in 0..ncells {
                        assert_ne!(b0[cell], b1[cell], "{label}: error seed has no effect on cell {cell}");
                        check_independent_errors(&format!("{label}: xe/xe' cell {cell}"), &base.errs[cell], &o.errs[cell]);
                    }
                }
                // other mask seed
                {
                    let mut s = s0;
                    s.xa = seed(0x75, 5);
                    let o = encrypt(module, c, &s);
                    assert_eq!(base.errs, o.errs, "{label}: the mask seed altered the error");
                    for cell in 0..ncells {
                        for col in 1..ncols {
                            for j in 0..c.size {
                                check_independent_digits(
                                    &format!("{label}: xa/xa' cell {cell} col {col} limb {j}"),
                                    &base.cells[cell][col][j],
                                    &o.cells[cell][col][j],
                                    c.b,
                                );
                            }
                        }
                        if c.kind.compressed() {
                            assert_ne!(base.stored[cell], o.stored[cell]);
                        }
                    }
                }
            }

            /// precision beyond 128 bits
            #[test]
            fn large_precision_matrices() {
                let n: usize = $n;
                let module: Module<$BE> = Module::<$BE>::new(n as u64);
                let dists = all_dists(n);
                let mut idx = 0usize;
                for &(b, size, dnum, dsize) in $big.iter() {
                    let kt: usize = size * b;
                    for &kind in ALL_KINDS.iter() {
                        if kind == Kind::G2GC && !$with_g2gc {
                            continue;
                        }
                        if matches!(kind, Kind::LweKsk | Kind::GlweToLwe | Kind::LweToGlwe) && dsize != 1 {
                            continue;
                        }
                        for rank in 1..=2usize {
                            if (kind.single_rank() || kind == Kind::GlweToLwe) && rank != 1 {
                                continue;
                            }
                            let c = Case {
                                n,
                                b,
                                size,
                                dnum,
                                dsize,
                                k_noise: [kt, kt - 1, kt - b - 2][idx % 3],
                                rank_in: if kind.uses_rank_in() { 3 - rank } else { rank },
                                rank_out: rank,
                                sigma: 3.2,
                                bound: 19.2,
                                dist: dists[idx % dists.len()],
                                kind,
                                p: 5,
                            };
                            idx += 1;
                            run_case(&module, &c);
                        }
                    }
                }
            }

            /// The library ships its own test for the compressed GGLWE-to-GGSW key, but never registers it in
            /// `core_backend_test_suite!`; run here it fails on the unmodified library for the same reason.
            #[test]
            fn library_own_unregistered_compressed_g2g_test() {
                let module: Module<$BE> = Module::<$BE>::new(256);
                let params = poulpy_hal::test_suite::TestParams {
                    size: 256,
                    base2k: $layouts[0].0,
                };
                poulpy_core::test_suite::encryption::test_gglwe_to_ggsw_compressed_encrypt_sk(&params, &module);
            }

            /// Minimal reproduction of the same defect: after encryption the seed tables of the compressed key are still
            /// the all-zero tables of the allocation (the seeds were written into a temporary copy).
            #[test]
            fn gglwe_to_ggsw_key_compressed_stores_its_seeds() {
                let n = 64usize;
                let module: Module<$BE> = Module::<$BE>::new(n as u64);
                let b: usize = $layouts[0].0;
                let lay = GGLWEToGGSWKeyLayout {
                    n: (n as u32).into(),
                    base2k: (b as u32).into(),
                    k: ((2 * b) as u32).into(),
                    rank: 1u32.into(),
                    dnum: 1u32.into(),
                    dsize: 1u32.into(),
                };
                let (sk, _) = make_glwe_sk(n, 1, SkDist::TernaryProb(0.5), seed(1, 0));
                let mut key: GGLWEToGGSWKeyCompressed<Vec<u8>> = GGLWEToGGSWKeyCompressed::alloc_from_infos(&lay);
                let mut scratch: ScratchOwned<$BE> =
                    ScratchOwned::alloc(GGLWEToGGSWKeyCompressedEncryptSk::gglwe_to_ggsw_key_encrypt_sk_tmp_bytes(&module, &lay));
                GGLWEToGGSWKeyCompressedEncryptSk::gglwe_to_ggsw_key_encrypt_sk(
                    &module,
                    &mut key,
                    &sk,
                    seed(2, 0),
                    &NoiseInfos::new(2 * b, 3.2, 19.2).unwrap(),
                    &mut Source::new(seed(3, 0)),
                    scratch.borrow(),
                );
                let stored = key.at(0).seed().clone();
                assert_eq!(stored.len(), 1);
                assert_ne!(stored[0], [0u8; 32], "the mask seed of the compressed GGLWE-to-GGSW key was not stored");
            }

            /// DEFECT: fails on the unmodified library (seeds of the compressed GGLWE-to-GGSW key are never stored).
            #[test]
            fn gglwe_to_ggsw_key_compressed_grid() {
                let n: usize = $n;
                let module: Module<$BE> = Module::<$BE>::new(n as u64);
                let (b, size, dnum, dsize) = $layouts[0];
                for rank in 1..=3usize {
                    let c = Case {
                        n,
                        b,
                        size,
                        dnum,
                        dsize,
                        k_noise: size * b,
                        rank_in: rank,
                        rank_out: rank,
                        sigma: 3.2,
                        bound: 19.2,
                        dist: SkDist::TernaryProb(0.5),
                        kind: Kind::G2GC,
                        p: 5,
                    };
                    run_case(&module, &c);
                }
            }

            #[test]
            fn all_matrix_kinds_grid() {
                let n: usize = $n;
                let module: Module<$BE> = Module::<$BE>::new(n as u64);
                let dists = all_dists(n);
                let noises = [(3.2, 19.2), (1.0, 6.0), (8.0, 16.0)];
                let ps: [i64; 4] = [5, -1, 25, -5];
                let mut idx = 0usize;
                let mut ran = 0usize;
                for &(b, size, dnum, dsize) in $layouts.iter() {
                    let kt: usize = size * b;
                    let ks = [kt, kt - 1, kt - b / 2, kt - b - 3];
                    for &kind in ALL_KINDS.iter() {
                        // the compressed GGLWE-to-GGSW key loses its mask seeds (see gglwe_to_ggsw_key_compressed_grid)
                        if kind == Kind::G2GC && !$with_g2gc {
                            continue;
                        }
                        if matches!(kind, Kind::LweKsk | Kind::GlweToLwe | Kind::LweToGlwe) && dsize != 1 {
                            continue;
                        }
                        for rank_out in 1..=3usize {
                            for rank_in in 1..=3usize {
                                if !kind.uses_rank_in() && rank_in != 1 {
                                    continue;
                                }
                                if (kind.single_rank() || kind == Kind::GlweToLwe) && rank_out != 1 {
                                    continue;
                                }
                                let k_noise = ks[idx % ks.len()];
                                let (sigma, bound) = noises[(idx / 4) % noises.len()];
                                let dist = dists[(idx / 3) % dists.len()];
                                let p = ps[idx % ps.len()];
                                idx += 1;
                                if k_noise > kt || (bound as f64).log2() + 2.0 >= k_noise as f64 {
                                    continue;
                                }
                                let c = Case {
                                    n,
                                    b,
                                    size,
                                    dnum,
                                    dsize,
                                    k_noise,
                                    rank_in: if kind.uses_rank_in() { rank_in } else { rank_out },
                                    rank_out,
                                    sigma,
                                    bound,
                                    dist,
                                    kind,
                                    p,
                                };
                                run_case(&module, &c);
                                ran += 1;
                            }
                        }
                    }
                }
                eprintln!(
                    "{}: {ran} matrix cases; coincidence checks (b>=16): {} calls, {} with >=1, {} with >=2",
                    stringify!($BE),
                    INDEP_CALLS.load(std::sync::atomic::Ordering::Relaxed),
                    INDEP_GE1.load(std::sync::atomic::Ordering::Relaxed),
                    INDEP_GE2.load(std::sync::atomic::Ordering::Relaxed)
                );
                assert!(ran > 100);
            }
        }
    };
}

matrix_tests!(
    fft64,
    FFT64Ref,
    [
        (17usize, 4usize, 4usize, 1usize),
        (17, 4, 2, 2),
        (12, 6, 2, 3),
        (12, 7, 3, 2),
        (19, 3, 3, 1),
        (17, 4, 1, 3),
        (17, 5, 2, 1)
    ],
    1024,
    false,
    [(17usize, 9usize, 4usize, 2usize), (12, 13, 6, 2), (17, 10, 9, 1)]
);
matrix_tests!(
    ntt120,
    NTT120Ref,
    [
        (52usize, 2usize, 2usize, 1usize),
        (52, 2, 1, 1),
        (40, 3, 1, 2),
        (30, 4, 2, 2),
        (30, 4, 4, 1),
        (17, 6, 2, 3),
        (40, 3, 2, 1)
    ],
    1024,
    false,
    [(52usize, 4usize, 3usize, 1usize), (30, 6, 2, 2), (52, 5, 2, 2)]
);
