//! C06 (a)(b)(c) for GLWE (sk / zero-sk / compressed / public key generation / pk / zero-pk) and LWE.
mod c06_common;
use c06_common::*;

use poulpy_core::{
    EncryptionLayout, GLWECompressedEncryptSk, GLWEEncryptPk, GLWEEncryptSk, GLWEPublicKeyGenerate, LWEEncryptSk,
    layouts::{
        GLWE, GLWECompressedSeed, GLWELayout, GLWEPlaintext, GLWEPublicKey, GLWEPublicKeyPreparedFactory,
        GLWESecretPreparedFactory, GLWEToRef, LWE, LWELayout, LWEPlaintext,
        compressed::{GLWECompressed, GLWEDecompress},
    },
};
use poulpy_cpu_ref::{FFT64Ref, NTT120Ref};
use poulpy_hal::{
    api::{ModuleNew, ScratchOwnedAlloc, ScratchOwnedBorrow, VecZnxFillUniform},
    layouts::{Module, NoiseInfos, ScalarZnx, ScratchOwned, VecZnx, ZnxInfos, ZnxView, ZnxViewMut},
    source::Source,
};

#[derive(Clone, Copy, Debug, PartialEq)]
enum Variant {
    Sk,
    ZeroSk,
    Compressed,
    PkGen,
    Pk,
    ZeroPk,
}

const VARIANTS: [Variant; 6] = [
    Variant::Sk,
    Variant::ZeroSk,
    Variant::Compressed,
    Variant::PkGen,
    Variant::Pk,
    Variant::ZeroPk,
];

#[derive(Clone, Copy, Debug)]
struct Seeds {
    xs: [u8; 32],
    xa: [u8; 32],
    xe: [u8; 32],
    xu: [u8; 32],
    pt: [u8; 32],
    pk_xa: [u8; 32],
    pk_xe: [u8; 32],
}

fn seeds(r: usize) -> Seeds {
    Seeds {
        xs: seed(1, r),
        xa: seed(2, r),
        xe: seed(3, r),
        xu: seed(4, r),
        pt: seed(5, r),
        pk_xa: seed(6, r),
        pk_xe: seed(7, r),
    }
}

#[derive(Clone, Copy, Debug)]
struct Case {
    n: usize,
    b: usize,
    size: usize,
    k_noise: usize,
    rank: usize,
    sigma: f64,
    bound: f64,
    dist: SkDist,
    variant: Variant,
    pt_size: usize,
}

/// Output of one encryption, reduced to what the checks need.
struct Out {
    /// all limbs of all columns of the (decompressed) ciphertext
    ct: Vec<Vec<Vec<i64>>>,
    /// exact recovered error per column (sk variants: one entry = body error)
    errs: Vec<Vec<i128>>,
    /// seed stored in the compressed form
    stored_seed: Option<[u8; 32]>,
}

macro_rules! glwe_lwe_tests {
    ($modname:ident, $BE:ty, $grid:expr, $n:expr, $big:expr) => {
        mod $modname {
            use super::*;

            pub fn encrypt_ct(c: &Case, s: &Seeds) -> Vec<Vec<Vec<i64>>> {
                let module: Module<$BE> = Module::<$BE>::new(c.n as u64);
                encrypt(&module, c, s).ct
            }

            fn encrypt(module: &Module<$BE>, c: &Case, s: &Seeds) -> Out {
                let (n, b, size, rank) = (c.n, c.b, c.size, c.rank);
                let kt = size * b;
                let layout = GLWELayout {
                    n: (n as u32).into(),
                    base2k: (b as u32).into(),
                    k: (kt as u32).into(),
                    rank: (rank as u32).into(),
                };
                let enc = EncryptionLayout::new(layout, NoiseInfos::new(c.k_noise, c.sigma, c.bound).unwrap()).unwrap();
                // the public key itself always carries the default noise at full precision
                let enc_pk = EncryptionLayout::new(layout, NoiseInfos::new(kt, 3.2, 19.2).unwrap()).unwrap();

                let (sk, sk_raw) = make_glwe_sk(n, rank, c.dist, s.xs);
                let mut skp = module.glwe_secret_prepared_alloc((rank as u32).into());
                module.glwe_secret_prepare(&mut skp, &sk);

                let mut pt: GLWEPlaintext<Vec<u8>> =
                    GLWEPlaintext::alloc((n as u32).into(), (b as u32).into(), ((c.pt_size * b) as u32).into());
                assert_eq!(pt.data().size(), c.pt_size);
                module.vec_znx_fill_uniform(b, pt.data_mut(), 0, &mut Source::new(s.pt));
                let pt_val = col_value_scaled(pt.data(), 0, b, size);
                let zero = vec![0u128; n];

                let mut scratch: ScratchOwned<$BE> = ScratchOwned::alloc(
                    module
                        .glwe_encrypt_sk_tmp_bytes(&layout)
                        .max(module.glwe_encrypt_pk_tmp_bytes(&layout))
                        .max(module.glwe_compressed_encrypt_sk_tmp_bytes(&layout)),
                );

                let mut xe = Source::new(s.xe);
                let mut xa = Source::new(s.xa);
                let mut xu = Source::new(s.xu);

                let mut ct: GLWE<Vec<u8>> = GLWE::alloc_from_infos(&layout);
                // poison the receiver: nothing of its previous content may survive
                ct.data_mut().raw_mut().fill(0x0123_4567_89ab);
                let mut stored_seed = None;

                match c.variant {
                    Variant::Sk => {
                        module.glwe_encrypt_sk(&mut ct, &pt, &skp, &enc, &mut xe, &mut xa, scratch.borrow());
                    }
                    Variant::ZeroSk => {
                        module.glwe_encrypt_zero_sk(&mut ct, &skp, &enc, &mut xe, &mut xa, scratch.borrow());
                    }
                    Variant::Compressed => {
                        let mut cc: GLWECompressed<Vec<u8>> = GLWECompressed::alloc_from_infos(&layout);
                        module.glwe_compressed_encrypt_sk(&mut cc, &pt, &skp, s.xa, &enc, &mut xe, scratch.borrow());
                        stored_seed = Some(*cc.seed());
                        module.decompress_glwe(&mut ct, &cc);
                    }
                    Variant::PkGen => {
                        let mut pk: GLWEPublicKey<Vec<u8>> = GLWEPublicKey::alloc_from_infos(&layout);
                        module.glwe_public_key_generate(&mut pk, &skp, &enc, &mut xe, &mut xa);
                        let pkd = pk.to_ref();
                        for col in 0..rank + 1 {
                            for j in 0..size {
                                ct.data_mut().at_mut(col, j).copy_from_slice(pkd.data().at(col, j));
                            }
                        }
                    }
                    Variant::Pk | Variant::ZeroPk => {
                        let mut pk: GLWEPublicKey<Vec<u8>> = GLWEPublicKey::alloc_from_infos(&layout);
                        module.glwe_public_key_generate(
                            &mut pk,
                            &skp,
                            &enc_pk,
                            &mut Source::new(s.pk_xe),
                            &mut Source::new(s.pk_xa),
                        );
                        let mut pkp = module.glwe_public_key_prepared_alloc_from_infos(&layout);
                        module.glwe_public_key_prepare(&mut pkp, &pk);
                        if c.variant == Variant::Pk {
                            module.glwe_encrypt_pk(&mut ct, &pt, &pkp, &enc, &mut xu, &mut xe, scratch.borrow());
                        } else {
                            module.glwe_encrypt_zero_pk(&mut ct, &pkp, &enc, &mut xu, &mut xe, scratch.borrow());
                        }
                        // e_i = ct[i] - u * pk[i] - [i == 0] m, with u regenerated from the xu seed
                        let mut u: ScalarZnx<Vec<u8>> = ScalarZnx::alloc(n, 1);
                        fill_scalar(&mut u, 0, c.dist, &mut Source::new(s.xu));
                        let u_raw = u.at(0, 0).to_vec();
                        let pkd = pk.to_ref();
                        let mut errs = Vec::new();
                        for col in 0..rank + 1 {
                            let mut acc = vec![0u128; n];
                            negacyclic_add(&mut acc, &col_value(pkd.data(), col, b), &u_raw);
                            if col == 0 && c.variant == Variant::Pk {
                                for (a, m) in acc.iter_mut().zip(pt_val.iter()) {
                                    *a = a.wrapping_add(*m);
                                }
                            }
                            errs.push(sub_center(&col_value(ct.data(), col, b), &acc, kt));
                        }
                        // and the ciphertext must decrypt under sk (ties the public key to the secret)
                        let phase = glwe_phase(ct.data(), b, &sk_raw);
                        let m = if c.variant == Variant::Pk { &pt_val } else { &zero };
                        let dec = sub_center(&phase, m, kt);
                        let lim = (n as f64) * 4.0 * (c.bound.max(19.2)) * ((kt - c.k_noise.min(kt)) as f64).exp2() * 4.0;
                        assert!(
                            dec.iter().all(|e| (*e as f64).abs() < lim),
                            "{c:?}: pk ciphertext does not decrypt under the secret key"
                        );
                        return Out {
                            ct: all_limbs(ct.data()),
                            errs,
                            stored_seed,
                        };
                    }
                }

                let phase = glwe_phase(ct.data(), b, &sk_raw);
                let m = match c.variant {
                    Variant::Sk | Variant::Compressed => &pt_val,
                    _ => &zero,
                };
                Out {
                    ct: all_limbs(ct.data()),
                    errs: vec![sub_center(&phase, m, kt)],
                    stored_seed,
                }
            }

            fn run_case(module: &Module<$BE>, c: &Case, reps: usize) {
                let label = format!("{} {c:?}", stringify!($BE));
                let kt = c.size * c.b;
                let is_pk = matches!(c.variant, Variant::Pk | Variant::ZeroPk);
                let mut pool = DigitPool::default();
                let mut errs_by_col: Vec<Vec<i128>> = vec![Vec::new(); if is_pk { c.rank + 1 } else { 1 }];
                let mut first: Option<Out> = None;
                for r in 0..reps {
                    let out = encrypt(module, c, &seeds(r));
                    for (col, limbs) in out.ct.iter().enumerate() {
                        for (j, l) in limbs.iter().enumerate() {
                            pool.push_raw(0, col, j, l);
                        }
                    }
                    for (i, e) in out.errs.iter().enumerate() {
                        errs_by_col[i].extend_from_slice(e);
                    }
                    if is_pk {
                        for i in 0..out.errs.len() {
                            for j in 0..i {
                                check_independent_errors(&format!("{label}: e_{i} vs e_{j}"), &out.errs[i], &out.errs[j]);
                            }
                        }
                    }
                    if r == 0 {
                        first = Some(out);
                    }
                }
                // (a) error: sigma, bound, bit position; every column for pk
                for (i, e) in errs_by_col.iter().enumerate() {
                    check_noise(&format!("{label} column {i}"), e, kt, c.b, c.k_noise, c.sigma, c.bound);
                }
                // (b) every limb of every column (mask and body) is uniform over the full digit range
                pool.check(&label, c.b);

                // (c) determinism and seed separation on rep 0
                let s0 = seeds(0);
                let base = first.unwrap();
                let again = encrypt(module, c, &s0);
                assert_eq!(base.ct, again.ct, "{label}: same seeds, different ciphertext");

                let unit_noise = ((kt - c.k_noise) as f64).exp2();
                let small = |d: &[i128]| d.iter().all(|x| (*x as f64).abs() <= 2.0 * (c.bound * unit_noise + 1.0));
                let value = |limbs: &Vec<Vec<i64>>| -> Vec<u128> {
                    let mut out = vec![0u128; c.n];
                    for (j, l) in limbs.iter().enumerate() {
                        let sh = (c.size - 1 - j) * c.b;
                        for i in 0..c.n {
                            out[i] = out[i].wrapping_add(shl((l[i] as i128) as u128, sh));
                        }
                    }
                    out
                };

                // other plaintext
                if matches!(c.variant, Variant::Sk | Variant::Compressed | Variant::Pk) {
                    let mut s = s0;
                    s.pt = seed(0x55, 99);
                    let o = encrypt(module, c, &s);
                    for col in 1..c.rank + 1 {
                        assert_eq!(base.ct[col], o.ct[col], "{label}: the plaintext changed column {col}");
                    }
                    assert_ne!(base.ct[0], o.ct[0], "{label}: the plaintext did not change the body");
                    assert_eq!(base.errs, o.errs, "{label}: the plaintext changed the error");
                }
                // other secret
                if !is_pk {
                    let mut s = s0;
                    s.xs = seed(0x56, 99);
                    let o = encrypt(module, c, &s);
                    for col in 1..c.rank + 1 {
                        assert_eq!(base.ct[col], o.ct[col], "{label}: the secret changed mask column {col}");
                    }
                    assert_ne!(base.ct[0], o.ct[0], "{label}: the secret did not change the body");
                    assert_eq!(base.errs, o.errs, "{label}: the secret changed the error");
                }
                // other error seed
                {
                    let mut s = s0;
                    s.xe = seed(0x57, 99);
                    let o = encrypt(module, c, &s);
                    if is_pk {
                        for col in 0..c.rank + 1 {
                            let d = sub_center(&value(&o.ct[col]), &value(&base.ct[col]), kt);
                            assert!(small(&d), "{label}: error seed changed more than the error in column {col}");
                            assert!(d.iter().any(|x| *x != 0), "{label}: error seed has no effect on column {col}");
                            check_independent_errors(&format!("{label}: xe/xe' col {col}"), &base.errs[col], &o.errs[col]);
                        }
                    } else {
                        for col in 1..c.rank + 1 {
                            assert_eq!(base.ct[col], o.ct[col], "{label}: the error seed changed mask column {col}");
                        }
                        let d = sub_center(&value(&o.ct[0]), &value(&base.ct[0]), kt);
                        assert!(small(&d), "{label}: error seed changed more than the error in the body");
                        let want: Vec<i128> = o.errs[0].iter().zip(base.errs[0].iter()).map(|(a, b)| a - b).collect();
                        assert_eq!(d, want);
                        check_independent_errors(&format!("{label}: xe/xe'"), &base.errs[0], &o.errs[0]);
                    }
                }
                // other mask seed (xa for sk variants, xu for pk variants)
                {
                    let mut s = s0;
                    s.xa = seed(0x58, 99);
                    s.xu = seed(0x59, 99);
                    let o = encrypt(module, c, &s);
                    let cols = if is_pk { 0..c.rank + 1 } else { 1..c.rank + 1 };
                    for col in cols {
                        for j in 0..c.size {
                            check_independent_digits(
                                &format!("{label}: mask seed, col {col} limb {j}"),
                                &base.ct[col][j],
                                &o.ct[col][j],
                                c.b,
                            );
                        }
                    }
                    if !is_pk {
                        assert_eq!(base.errs, o.errs, "{label}: the mask seed changed the error");
                    }
                    if let (Some(a), Some(bb)) = (base.stored_seed, o.stored_seed) {
                        assert_eq!(a, s0.xa);
                        assert_eq!(bb, s.xa);
                    }
                }
                // distinct mask columns of one ciphertext never share a stream
                for i in 1..c.rank + 1 {
                    for j in 1..i {
                        for l in 0..c.size {
                            check_independent_digits(
                                &format!("{label}: mask col {i} vs {j} limb {l}"),
                                &base.ct[i][l],
                                &base.ct[j][l],
                                c.b,
                            );
                        }
                    }
                }
                // for pk variants unused seeds must be irrelevant
                if is_pk {
                    let mut s = s0;
                    s.xa = seed(0x60, 1);
                    let o = encrypt(module, c, &s);
                    assert_eq!(base.ct, o.ct);
                }
            }

            #[test]
            fn glwe_all_variants_grid() {
                let n: usize = $n;
                let reps = (1usize << 14) / n;
                let module: Module<$BE> = Module::<$BE>::new(n as u64);
                let dists = all_dists(n);
                let noises = [(3.2, 19.2), (1.0, 6.0), (8.0, 16.0), (3.2, 3.2)];
                let mut idx = 0usize;
                for &(b, size) in $grid.iter() {
                    let kt: usize = size * b;
                    let mut ks = vec![kt, kt - 1, kt - b / 2];
                    if size > 1 {
                        ks.push(kt - b);
                        ks.push(kt - b - 3);
                    }
                    for &k_noise in &ks {
                        for rank in 1..=3usize {
                            for &variant in VARIANTS.iter() {
                                let (sigma, bound) = noises[idx % noises.len()];
                                let dist = dists[(idx / 2) % dists.len()];
                                idx += 1;
                                // pk encryption adds the error into the limbs of the public key: needs k <= kt only
                                // keep the noise inside the torus
                                if (bound as f64).log2() + 2.0 >= k_noise as f64 {
                                    continue;
                                }
                                let pt_size = if size > 1 && idx % 3 == 0 { size - 1 } else { size };
                                let c = Case {
                                    n,
                                    b,
                                    size,
                                    k_noise,
                                    rank,
                                    sigma,
                                    bound,
                                    dist,
                                    variant,
                                    pt_size,
                                };
                                run_case(&module, &c, reps);
                            }
                        }
                    }
                }
            }

            /// every secret distribution x every variant at one fixed layout with k not a multiple of base2k
            #[test]
            fn glwe_all_distributions() {
                let n: usize = $n;
                let reps = (1usize << 14) / n;
                let module: Module<$BE> = Module::<$BE>::new(n as u64);
                let (b, size) = $grid[0];
                for dist in all_dists(n) {
                    for &variant in VARIANTS.iter() {
                        for rank in [1usize, 2] {
                            let c = Case {
                                n,
                                b,
                                size,
                                k_noise: size * b - (b - 1),
                                rank,
                                sigma: 3.2,
                                bound: 19.2,
                                dist,
                                variant,
                                pt_size: size,
                            };
                            run_case(&module, &c, reps);
                        }
                    }
                }
            }

            /// precision beyond 128 bits (the error is recovered from the low 128 bits of the phase)
            #[test]
            fn glwe_large_precision() {
                let n: usize = $n;
                let reps = (1usize << 14) / n;
                let module: Module<$BE> = Module::<$BE>::new(n as u64);
                let dists = all_dists(n);
                let mut idx = 0;
                for &(b, size) in $big.iter() {
                    let kt: usize = size * b;
                    for k_noise in [kt, kt - 1, kt - b - 3, kt - 2 * b] {
                        for rank in 1..=2usize {
                            for &variant in VARIANTS.iter() {
                                let c = Case {
                                    n,
                                    b,
                                    size,
                                    k_noise,
                                    rank,
                                    sigma: 3.2,
                                    bound: 19.2,
                                    dist: dists[idx % dists.len()],
                                    variant,
                                    pt_size: if idx % 2 == 0 { size } else { size - 2 },
                                };
                                idx += 1;
                                run_case(&module, &c, reps);
                            }
                        }
                    }
                }
            }

            /// public-key encryption into a ciphertext whose limb count differs from the public key's
            #[test]
            fn glwe_encrypt_pk_mismatched_sizes() {
                let n: usize = $n;
                let reps = (1usize << 14) / n;
                let module: Module<$BE> = Module::<$BE>::new(n as u64);
                for &(b, size) in $grid.iter() {
                    if size < 2 {
                        continue;
                    }
                    for size_ct in [size - 1, size + 1] {
                        if (size_ct.max(size)) * b > 128 + b {
                            continue;
                        }
                        for rank in 1..=2usize {
                            let k_pk = size * b;
                            let k_ct = size_ct * b;
                            let k_noise = k_pk.min(k_ct) - 1;
                            let mk = |k: usize| GLWELayout {
                                n: (n as u32).into(),
                                base2k: (b as u32).into(),
                                k: (k as u32).into(),
                                rank: (rank as u32).into(),
                            };
                            let (lay_pk, lay_ct) = (mk(k_pk), mk(k_ct));
                            let enc_pk = EncryptionLayout::new(lay_pk, NoiseInfos::new(k_pk, 3.2, 19.2).unwrap()).unwrap();
                            let enc = EncryptionLayout::new(lay_ct, NoiseInfos::new(k_noise, 3.2, 19.2).unwrap()).unwrap();
                            let mut scratch: ScratchOwned<$BE> = ScratchOwned::alloc(
                                module.glwe_encrypt_pk_tmp_bytes(&lay_pk).max(module.glwe_encrypt_pk_tmp_bytes(&lay_ct)),
                            );
                            let mut errs: Vec<f64> = Vec::new();
                            let mut exact: Vec<i128> = Vec::new();
                            let mut pool = DigitPool::default();
                            for r in 0..reps {
                                let s = seeds(r);
                                let (sk, _sk_raw) = make_glwe_sk(n, rank, SkDist::TernaryProb(0.5), s.xs);
                                let mut skp = module.glwe_secret_prepared_alloc((rank as u32).into());
                                module.glwe_secret_prepare(&mut skp, &sk);
                                let mut pk: GLWEPublicKey<Vec<u8>> = GLWEPublicKey::alloc_from_infos(&lay_pk);
                                module.glwe_public_key_generate(&mut pk, &skp, &enc_pk, &mut Source::new(s.pk_xe), &mut Source::new(s.pk_xa));
                                let mut pkp = module.glwe_public_key_prepared_alloc_from_infos(&lay_pk);
                                module.glwe_public_key_prepare(&mut pkp, &pk);
                                let mut pt: GLWEPlaintext<Vec<u8>> =
                                    GLWEPlaintext::alloc((n as u32).into(), (b as u32).into(), ((size_ct.min(size) * b) as u32).into());
                                module.vec_znx_fill_uniform(b, pt.data_mut(), 0, &mut Source::new(s.pt));
                                let mut ct: GLWE<Vec<u8>> = GLWE::alloc_from_infos(&lay_ct);
                                module.glwe_encrypt_pk(
                                    &mut ct,
                                    &pt,
                                    &pkp,
                                    &enc,
                                    &mut Source::new(s.xu),
                                    &mut Source::new(s.xe),
                                    scratch.borrow(),
                                );
                                let mut u: ScalarZnx<Vec<u8>> = ScalarZnx::alloc(n, 1);
                                fill_scalar(&mut u, 0, SkDist::TernaryProb(0.5), &mut Source::new(s.xu));
                                let u_raw = u.at(0, 0).to_vec();
                                let big = size.max(size_ct);
                                let kt = big * b;
                                let pkd = pk.to_ref();
                                for col in 0..rank + 1 {
                                    let mut acc = vec![0u128; n];
                                    negacyclic_add(&mut acc, &col_value_scaled(pkd.data(), col, b, big), &u_raw);
                                    if col == 0 {
                                        for (a, m) in acc.iter_mut().zip(col_value_scaled(pt.data(), 0, b, big).iter()) {
                                            *a = a.wrapping_add(*m);
                                        }
                                    }
                                    let e = sub_center(&col_value_scaled(ct.data(), col, b, big), &acc, kt);
                                    if size_ct > size {
                                        exact.extend_from_slice(&e);
                                    } else {
                                        errs.extend(e.iter().map(|x| *x as f64));
                                    }
                                }
                                // a ciphertext longer than the public key has all-zero extra limbs by construction
                                for col in 0..rank + 1 {
                                    for j in 0..size.min(size_ct) {
                                        pool.push_raw(0, col, j, ct.data().at(col, j));
                                    }
                                    for j in size.min(size_ct)..size_ct {
                                        assert!(ct.data().at(col, j).iter().all(|x| *x == 0));
                                    }
                                }
                            }
                            let label = format!("{} pk size {size} ct size {size_ct} b={b} rank={rank}", stringify!($BE));
                            pool.check(&label, b);
                            if size_ct > size {
                                check_noise(&label, &exact, size_ct * b, b, k_noise, 3.2, 19.2);
                            } else {
                                // units 2^-k_pk; noise at k_ct - 1 plus the rounding of u*pk to the shorter ciphertext
                                let d = ((k_pk - k_ct) as f64).exp2();
                                let want = d * d * (4.0 * 3.2 * 3.2 + 1.0 / 12.0 + 1.0 / 12.0);
                                check_noise_var(&label, &errs, want, 0.0);
                            }
                        }
                    }
                }
            }

            /// SIDE DEFECT (ScalarZnx::fill_binary_hw): with a BinaryFixed(hw) key distribution the ephemeral `u` of
            /// public-key encryption is documented to have exactly hw ones but has Binomial(hw, 1/2) ones; for small hw
            /// it is identically zero with probability 2^-hw and the "mask" of the ciphertext is the bare error term.
            #[test]
            fn glwe_encrypt_pk_binary_fixed_ephemeral_is_never_zero() {
                let n: usize = $n;
                let module: Module<$BE> = Module::<$BE>::new(n as u64);
                let (b, size) = $grid[0];
                let lay = GLWELayout {
                    n: (n as u32).into(),
                    base2k: (b as u32).into(),
                    k: ((size * b) as u32).into(),
                    rank: 1u32.into(),
                };
                let enc = EncryptionLayout::new_from_default_sigma(lay).unwrap();
                let mut scratch: ScratchOwned<$BE> = ScratchOwned::alloc(module.glwe_encrypt_pk_tmp_bytes(&lay));
                for hw in [1usize, 2, 3] {
                    let mut exposed = 0usize;
                    let trials = 32;
                    for r in 0..trials {
                        let s = seeds(r);
                        // a proper secret; only the distribution tag (inherited by the public key) says BinaryFixed(hw)
                        let (sk, _) = make_glwe_sk(n, 1, SkDist::BinaryHw(hw), s.xs);
                        let mut skp = module.glwe_secret_prepared_alloc(1u32.into());
                        module.glwe_secret_prepare(&mut skp, &sk);
                        let mut pk: GLWEPublicKey<Vec<u8>> = GLWEPublicKey::alloc_from_infos(&lay);
                        module.glwe_public_key_generate(&mut pk, &skp, &enc, &mut Source::new(s.pk_xe), &mut Source::new(s.pk_xa));
                        let mut pkp = module.glwe_public_key_prepared_alloc_from_infos(&lay);
                        module.glwe_public_key_prepare(&mut pkp, &pk);
                        let mut ct: GLWE<Vec<u8>> = GLWE::alloc_from_infos(&lay);
                        module.glwe_encrypt_zero_pk(&mut ct, &pkp, &enc, &mut Source::new(s.xu), &mut Source::new(s.xe), scratch.borrow());
                        // mask column reduced to the error term: every limb above the noise limb is zero / sign extension
                        let v = col_value(ct.data(), 1, b);
                        if v.iter().all(|x| center(*x, size * b).abs() <= 20) {
                            exposed += 1;
                        }
                    }
                    assert_eq!(
                        exposed, 0,
                        "BinaryFixed({hw}): {exposed}/{trials} public-key ciphertexts have a mask column equal to the bare error term (u = 0)"
                    );
                }
            }

            /// sibling equivalences: compressed == standard, zero == standard with a zero plaintext
            #[test]
            fn glwe_sibling_forms_agree() {
                let n: usize = $n;
                let module: Module<$BE> = Module::<$BE>::new(n as u64);
                for &(b, size) in $grid.iter() {
                    for rank in 1..=3usize {
                        let mut c = Case {
                            n,
                            b,
                            size,
                            k_noise: size * b - 1,
                            rank,
                            sigma: 3.2,
                            bound: 19.2,
                            dist: SkDist::TernaryProb(0.5),
                            variant: Variant::Sk,
                            pt_size: size,
                        };
                        let s = seeds(7);
                        let std_out = encrypt(&module, &c, &s);
                        c.variant = Variant::Compressed;
                        let cmp_out = encrypt(&module, &c, &s);
                        assert_eq!(std_out.ct, cmp_out.ct, "b={b} rank={rank}: compressed != standard for equal seeds");
                        // the decompressed mask is exactly the stream of the stored seed
                        let mut v: VecZnx<Vec<u8>> = VecZnx::alloc(n, rank + 1, size);
                        let mut src = Source::new(cmp_out.stored_seed.unwrap());
                        for col in 1..rank + 1 {
                            module.vec_znx_fill_uniform(b, &mut v, col, &mut src);
                            assert_eq!(limbs_of(&v, col), cmp_out.ct[col]);
                        }
                        c.variant = Variant::ZeroSk;
                        let z = encrypt(&module, &c, &s);
                        c.variant = Variant::PkGen;
                        let p = encrypt(&module, &c, &s);
                        assert_eq!(z.ct, p.ct, "public key generation != zero encryption");
                        assert_eq!(z.errs, std_out.errs, "zero encryption draws another error than encryption of pt");
                        for col in 1..rank + 1 {
                            assert_eq!(z.ct[col], std_out.ct[col]);
                        }
                    }
                }
            }

            #[test]
            fn lwe_encrypt_sk() {
                let module: Module<$BE> = Module::<$BE>::new(64);
                let dists_n = 512usize;
                let mut idx = 0usize;
                for &(b, size) in $grid.iter() {
                    let kt: usize = size * b;
                    let mut ks = vec![kt, kt - 1, kt - b / 2];
                    if size > 1 {
                        ks.push(kt - b);
                        ks.push(b + 1);
                    }
                    for &k_noise in &ks {
                        for dist in all_dists(dists_n) {
                            let n_lwe = [dists_n, 320, 128][idx % 3];
                            let dist = match dist {
                                SkDist::TernaryHw(_) => SkDist::TernaryHw(n_lwe / 4),
                                SkDist::BinaryHw(_) => SkDist::BinaryHw(n_lwe / 2),
                                d => d,
                            };
                            let (sigma, bound) = [(3.2, 19.2), (1.0, 6.0), (8.0, 16.0)][idx % 3];
                            idx += 1;
                            if (bound as f64).log2() + 2.0 >= k_noise as f64 {
                                continue;
                            }
                            let pt_size = if size > 1 && idx % 2 == 0 { size - 1 } else { size };
                            lwe_case(&module, n_lwe, b, size, k_noise, sigma, bound, dist, pt_size);
                        }
                    }
                }
            }

            #[allow(clippy::too_many_arguments)]
            fn lwe_one(
                module: &Module<$BE>,
                n_lwe: usize,
                b: usize,
                size: usize,
                enc: &EncryptionLayout<LWELayout>,
                sk: &poulpy_core::layouts::LWESecret<Vec<u8>>,
                sk_raw: &[i64],
                pt_digits: &[i64],
                xe: &mut Source,
                xa: &mut Source,
                scratch: &mut ScratchOwned<$BE>,
            ) -> (Vec<Vec<i64>>, i128) {
                let kt = size * b;
                let mut ct: LWE<Vec<u8>> = LWE::alloc_from_infos(&enc.layout);
                ct.data_mut().raw_mut().fill(0x7777);
                let mut pt: LWEPlaintext<Vec<u8>> = LWEPlaintext::alloc((b as u32).into(), ((pt_digits.len() * b) as u32).into());
                for (j, d) in pt_digits.iter().enumerate() {
                    pt.data_mut().at_mut(0, j)[0] = *d;
                }
                module.lwe_encrypt_sk(&mut ct, &pt, sk, enc, xe, xa, scratch.borrow());
                assert_eq!(ct.data().n(), n_lwe + 1);
                // value per coefficient
                let v = col_value(ct.data(), 0, b);
                let mut phase = v[0];
                for i in 0..n_lwe {
                    phase = phase.wrapping_add(v[i + 1].wrapping_mul((sk_raw[i] as i128) as u128));
                }
                let mut m = 0u128;
                for (j, d) in pt_digits.iter().enumerate() {
                    m = m.wrapping_add(shl((*d as i128) as u128, (size - 1 - j) * b));
                }
                (limbs_of(ct.data(), 0), center(phase.wrapping_sub(m), kt))
            }

            #[allow(clippy::too_many_arguments)]
            fn lwe_case(
                module: &Module<$BE>,
                n_lwe: usize,
                b: usize,
                size: usize,
                k_noise: usize,
                sigma: f64,
                bound: f64,
                dist: SkDist,
                pt_size: usize,
            ) {
                let label = format!(
                    "{} LWE n={n_lwe} b={b} size={size} k_noise={k_noise} sigma={sigma} bound={bound} {dist:?} pt_size={pt_size}",
                    stringify!($BE)
                );
                let kt = size * b;
                let layout = LWELayout {
                    n: (n_lwe as u32).into(),
                    k: (kt as u32).into(),
                    base2k: (b as u32).into(),
                };
                let enc = EncryptionLayout::new(layout, NoiseInfos::new(k_noise, sigma, bound).unwrap()).unwrap();
                let (sk, sk_raw) = make_lwe_sk(n_lwe, dist, seed(1, 0));
                let mut scratch: ScratchOwned<$BE> = ScratchOwned::alloc(module.lwe_encrypt_sk_tmp_bytes(&layout));
                let mut xe = Source::new(seed(3, 0));
                let mut xa = Source::new(seed(2, 0));
                let mut xp = Source::new(seed(5, 0));
                let half = 1i64 << (b - 1);
                let mut errs = Vec::with_capacity(1 << 14);
                let mut pool = DigitPool::default();
                let mut prev_mask: Option<Vec<Vec<i64>>> = None;
                for t in 0..(1usize << 14) {
                    let pt_digits: Vec<i64> = (0..pt_size)
                        .map(|_| (xp.next_u64n(1 << b, (1 << b) - 1) as i64) - half)
                        .collect();
                    let (ct, e) = lwe_one(
                        module, n_lwe, b, size, &enc, &sk, &sk_raw, &pt_digits, &mut xe, &mut xa, &mut scratch,
                    );
                    errs.push(e);
                    if t < 96 {
                        for (j, l) in ct.iter().enumerate() {
                            pool.push_raw(0, 0, j, &l[1..]);
                        }
                        if let Some(p) = &prev_mask {
                            for j in 0..size {
                                if t % 8 == 1 {
                                    check_independent_digits(&format!("{label}: consecutive masks"), &p[j][1..], &ct[j][1..], b);
                                }
                            }
                        }
                        prev_mask = Some(ct.clone());
                    }
                    // bodies
                    for (j, l) in ct.iter().enumerate() {
                        pool.push_raw(1, 0, j, &l[..1]);
                    }
                }
                check_noise(&label, &errs, kt, b, k_noise, sigma, bound);
                pool.check(&label, b);

                // determinism / separation on a single ciphertext
                let pt_a: Vec<i64> = (0..pt_size).map(|j| (j as i64 * 37 + 5) % half).collect();
                let pt_b: Vec<i64> = (0..pt_size).map(|j| -((j as i64 * 11 + 3) % half)).collect();
                let mut one = |sk: &poulpy_core::layouts::LWESecret<Vec<u8>>, sk_raw: &[i64], pt: &[i64], se: u8, sa: u8| {
                    lwe_one(
                        module,
                        n_lwe,
                        b,
                        size,
                        &enc,
                        sk,
                        sk_raw,
                        pt,
                        &mut Source::new(seed(se, 1)),
                        &mut Source::new(seed(sa, 1)),
                        &mut scratch,
                    )
                };
                let (c0, e0) = one(&sk, &sk_raw, &pt_a, 3, 2);
                let (c1, e1) = one(&sk, &sk_raw, &pt_a, 3, 2);
                assert_eq!(c0, c1, "{label}: not deterministic");
                assert_eq!(e0, e1);
                let mask = |c: &Vec<Vec<i64>>| -> Vec<Vec<i64>> { c.iter().map(|l| l[1..].to_vec()).collect() };
                let body = |c: &Vec<Vec<i64>>| -> Vec<i64> { c.iter().map(|l| l[0]).collect() };
                let (c2, e2) = one(&sk, &sk_raw, &pt_b, 3, 2);
                assert_eq!(mask(&c0), mask(&c2), "{label}: plaintext changed the mask");
                assert_ne!(body(&c0), body(&c2));
                assert_eq!(e0, e2, "{label}: plaintext changed the error");
                let (sk2, sk2_raw) = make_lwe_sk(n_lwe, dist, seed(1, 9));
                let (c3, e3) = one(&sk2, &sk2_raw, &pt_a, 3, 2);
                assert_eq!(mask(&c0), mask(&c3), "{label}: secret changed the mask");
                assert_eq!(e0, e3, "{label}: secret changed the error");
                let (c4, _e4) = one(&sk, &sk_raw, &pt_a, 0x33, 2);
                assert_eq!(mask(&c0), mask(&c4), "{label}: error seed changed the mask");
                let (c5, e5) = one(&sk, &sk_raw, &pt_a, 3, 0x22);
                assert_eq!(e0, e5, "{label}: mask seed changed the error");
                for j in 0..size {
                    if n_lwe >= 256 {
                        check_independent_digits(&format!("{label}: mask seed limb {j}"), &mask(&c0)[j], &mask(&c5)[j], b);
                    } else {
                        assert_ne!(mask(&c0)[j], mask(&c5)[j]);
                    }
                }
            }
        }
    };
}

glwe_lwe_tests!(
    fft64,
    FFT64Ref,
    [(17usize, 4usize), (12, 3), (19, 3), (17, 1)],
    2048,
    [(17usize, 9usize), (12, 14)]
);
glwe_lwe_tests!(
    ntt120,
    NTT120Ref,
    [(52usize, 2usize), (17, 4), (30, 4), (52, 1)],
    2048,
    [(52usize, 4usize), (30, 6)]
);

/// (c) across backends: both reference backends are exact, so equal seeds must give bit-identical ciphertexts.
#[test]
fn fft64_and_ntt120_produce_identical_ciphertexts() {
    for (b, size) in [(17usize, 4usize), (12, 5), (19, 3)] {
        for rank in 1..=3usize {
            for &variant in VARIANTS.iter() {
                let c = Case {
                    n: 1024,
                    b,
                    size,
                    k_noise: size * b - 3,
                    rank,
                    sigma: 3.2,
                    bound: 19.2,
                    dist: SkDist::TernaryProb(0.5),
                    variant,
                    pt_size: size,
                };
                let s = seeds(3);
                assert_eq!(fft64::encrypt_ct(&c, &s), ntt120::encrypt_ct(&c, &s), "{c:?}");
            }
        }
    }
}
