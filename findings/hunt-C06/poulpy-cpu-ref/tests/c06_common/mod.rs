//! Shared helpers for the C06 audit tests ("fresh ciphertexts carry the configured randomness").
//!
//! Everything here is independent of the library's own decryption / noise code: torus values are
//! reconstructed from raw limbs as integers modulo 2^128 and all ring products are done naively.
#![allow(dead_code)]

use poulpy_hal::layouts::{DataRef, VecZnx, ZnxInfos, ZnxView};

/// Two-sided normal quantile used for every acceptance band. P(|Z| > 9) ~ 2^-62, which leaves a
/// budget of ~2^22 individual checks for a global false-alarm probability below 2^-40.
pub const Z: f64 = 9.0;

/// chi-square acceptance threshold for 15 degrees of freedom.
/// Chernoff: P(X > x) <= (x/k * e^(1 - x/k))^(k/2); k = 15, x = 140 gives < 2^-65.
pub const CHI2_15_MAX: f64 = 140.0;

pub fn seed(tag: u8, idx: usize) -> [u8; 32] {
    let mut s = [tag; 32];
    s[0] = idx as u8;
    s[1] = (idx >> 8) as u8;
    s[2] = 0xC6;
    s
}

/// x * 2^sh mod 2^128
pub fn shl(x: u128, sh: usize) -> u128 {
    if sh >= 128 { 0 } else { x << sh }
}

/// Integer value (mod 2^128) of column `col`, in units of 2^-(size*base2k).
pub fn col_value<D: DataRef>(v: &VecZnx<D>, col: usize, base2k: usize) -> Vec<u128> {
    let n = v.n();
    let size = v.size();
    // For more than 128 bits of precision only the low 128 bits are kept: enough to recover any
    // error term that is small relative to 2^-(K-127).
    let mut out = vec![0u128; n];
    for j in 0..size {
        let sh = (size - 1 - j) * base2k;
        if sh >= 128 {
            continue;
        }
        let limb = v.at(col, j);
        for i in 0..n {
            out[i] = out[i].wrapping_add(((limb[i] as i128) as u128) << sh);
        }
    }
    out
}

/// Same as [col_value] but rescaled to `to_size` limbs (to_size >= v.size()).
pub fn col_value_scaled<D: DataRef>(v: &VecZnx<D>, col: usize, base2k: usize, to_size: usize) -> Vec<u128> {
    assert!(to_size >= v.size());
    let sh = (to_size - v.size()) * base2k;
    col_value(v, col, base2k).into_iter().map(|x| shl(x, sh)).collect()
}

/// acc += a * s in Z[X]/(X^n+1), coefficients mod 2^128.
pub fn negacyclic_add(acc: &mut [u128], a: &[u128], s: &[i64]) {
    let n = a.len();
    assert_eq!(s.len(), n);
    assert_eq!(acc.len(), n);
    for (j, &sj) in s.iter().enumerate() {
        if sj == 0 {
            continue;
        }
        let m = (sj as i128) as u128;
        for i in 0..n {
            let t = a[i].wrapping_mul(m);
            let k = i + j;
            if k < n {
                acc[k] = acc[k].wrapping_add(t);
            } else {
                acc[k - n] = acc[k - n].wrapping_sub(t);
            }
        }
    }
}

/// Negacyclic product of two small integer polynomials.
pub fn negacyclic_small(a: &[i64], b: &[i64]) -> Vec<i64> {
    let n = a.len();
    let mut out = vec![0i64; n];
    for (i, &ai) in a.iter().enumerate() {
        if ai == 0 {
            continue;
        }
        for (j, &bj) in b.iter().enumerate() {
            let k = i + j;
            if k < n {
                out[k] += ai * bj;
            } else {
                out[k - n] -= ai * bj;
            }
        }
    }
    out
}

/// X -> X^p on a small polynomial in Z[X]/(X^n+1), p odd (possibly negative).
pub fn automorphism_small(a: &[i64], p: i64) -> Vec<i64> {
    let n = a.len() as i64;
    let two_n = 2 * n;
    let mut out = vec![0i64; a.len()];
    for (i, &ai) in a.iter().enumerate() {
        let e = ((i as i64) * p).rem_euclid(two_n);
        if e < n {
            out[e as usize] += ai;
        } else {
            out[(e - n) as usize] -= ai;
        }
    }
    out
}

pub fn center(x: u128, k_bits: usize) -> i128 {
    assert!(k_bits > 0);
    if k_bits >= 128 {
        return x as i128;
    }
    let m = (1u128 << k_bits) - 1;
    let x = x & m;
    if x >= (1u128 << (k_bits - 1)) {
        (x as i128) - (1i128 << k_bits)
    } else {
        x as i128
    }
}

/// c0 + sum_i c_{i+1} * s_i (mod 2^128), units 2^-(size*base2k).
pub fn glwe_phase<D: DataRef>(ct: &VecZnx<D>, base2k: usize, sk: &[Vec<i64>]) -> Vec<u128> {
    assert_eq!(ct.cols(), sk.len() + 1);
    let mut acc = col_value(ct, 0, base2k);
    for (i, s) in sk.iter().enumerate() {
        let a = col_value(ct, i + 1, base2k);
        negacyclic_add(&mut acc, &a, s);
    }
    acc
}

/// phase with an explicit body (compressed forms keep the body apart from the regenerated mask).
pub fn phase_from_parts(body: &[u128], masks: &[Vec<u128>], sk: &[Vec<i64>]) -> Vec<u128> {
    assert_eq!(masks.len(), sk.len());
    let mut acc = body.to_vec();
    for (a, s) in masks.iter().zip(sk.iter()) {
        negacyclic_add(&mut acc, a, s);
    }
    acc
}

pub fn sub_center(a: &[u128], b: &[u128], k_bits: usize) -> Vec<i128> {
    a.iter().zip(b.iter()).map(|(x, y)| center(x.wrapping_sub(*y), k_bits)).collect()
}

// ---------------------------------------------------------------------------------------------
// statistics
// ---------------------------------------------------------------------------------------------

/// Variance of N(0, sigma^2) truncated to |x| <= bound (Simpson integration).
pub fn truncated_var(sigma: f64, bound: f64) -> f64 {
    let t = bound / sigma;
    if t > 12.0 {
        return sigma * sigma;
    }
    let steps = 20000usize;
    let h = 2.0 * t / steps as f64;
    let (mut num, mut den) = (0.0f64, 0.0f64);
    for i in 0..=steps {
        let x = -t + h * i as f64;
        let w = if i == 0 || i == steps {
            1.0
        } else if i % 2 == 1 {
            4.0
        } else {
            2.0
        };
        let p = (-0.5 * x * x).exp();
        num += w * x * x * p;
        den += w * p;
    }
    sigma * sigma * num / den
}

/// Kurtosis-aware relative standard deviation of the sample variance of a truncated Gaussian.
fn var_rel_std(n: usize) -> f64 {
    // Gaussian: Var(s^2)/sigma^4 = 2/(N-1). Truncation only lowers the kurtosis. 10% slack for rounding.
    1.1 * (2.0 / (n as f64 - 1.0)).sqrt()
}

/// Checks recovered error terms against the configured (sigma, bound, k).
///
/// * `errs`      : exact centred error in units of 2^-k_total
/// * `k_total`   : size*base2k of the ciphertext the error was recovered from
/// * `base2k`, `k_noise`, `sigma`, `bound`: the configured NoiseInfos
///
/// The library places the noise in limb ceil(k/base2k)-1 and scales it by 2^((limb+1)*base2k - k);
/// the recovered error must therefore be a multiple of 2^(k_total-(limb+1)*base2k), bounded by
/// bound*2^(k_total-k) (+ rounding) and have standard deviation sigma*2^(k_total-k).
pub fn check_noise(label: &str, errs: &[i128], k_total: usize, base2k: usize, k_noise: usize, sigma: f64, bound: f64) {
    let n = errs.len();
    assert!(n >= 1 << 10, "{label}: not enough samples ({n})");
    let limb = k_noise.div_ceil(base2k) - 1;
    let unit_log2 = k_total - (limb + 1) * base2k;
    let scale = (((limb + 1) * base2k - k_noise) as f64).exp2();
    let unit = 1i128 << unit_log2;
    let mut sum = 0.0f64;
    let mut sum2 = 0.0f64;
    let mut max_abs = 0.0f64;
    let mut nonzero = 0usize;
    for (i, &e) in errs.iter().enumerate() {
        assert!(
            e % unit == 0,
            "{label}: error[{i}] = {e} is not a multiple of 2^{unit_log2}: noise below its configured limb position"
        );
        let x = (e / unit) as f64;
        sum += x;
        sum2 += x * x;
        max_abs = max_abs.max(x.abs());
        if e != 0 {
            nonzero += 1;
        }
    }
    let nf = n as f64;
    let mean = sum / nf;
    let var = sum2 / nf - mean * mean;
    let s = sigma * scale;
    let b = bound * scale;
    let want_var = truncated_var(s, b) + 1.0 / 12.0;
    let band = Z * var_rel_std(n);
    assert!(nonzero > 0, "{label}: the error term is identically zero");
    assert!(
        max_abs <= b + 0.5 + 1e-9 * b,
        "{label}: |e|max = {max_abs} exceeds the truncation bound {b} (scaled)"
    );
    assert!(
        var >= want_var * (1.0 - band),
        "{label}: error std {:.4} is SMALLER than configured {:.4} (N={n}, band {:.3}%)",
        var.sqrt(),
        want_var.sqrt(),
        50.0 * band
    );
    assert!(
        var <= want_var * (1.0 + band),
        "{label}: error std {:.4} is larger than configured {:.4} (N={n}, band {:.3}%)",
        var.sqrt(),
        want_var.sqrt(),
        50.0 * band
    );
    let mean_band = Z * want_var.sqrt() / nf.sqrt();
    assert!(mean.abs() <= mean_band, "{label}: error mean {mean} outside +-{mean_band}");
    // the truncation must actually be reachable (not a much tighter hidden bound): when the tail mass
    // beyond 0.75*bound is expected to give >= 40 hits, require at least one
    let t = 0.75 * bound / sigma;
    let tail = erfc_approx(t / std::f64::consts::SQRT_2);
    if tail * nf > 40.0 {
        assert!(
            max_abs >= 0.75 * b,
            "{label}: |e|max = {max_abs} never reaches 0.75*bound = {}",
            0.75 * b
        );
    }
}

/// Checks a pooled error (sum of independent contributions) against an expected variance only.
pub fn check_noise_var(label: &str, errs: &[f64], want_var: f64, rel_slack: f64) {
    let n = errs.len();
    let nf = n as f64;
    let mean = errs.iter().sum::<f64>() / nf;
    let var = errs.iter().map(|x| (x - mean) * (x - mean)).sum::<f64>() / nf;
    let band = Z * var_rel_std(n) + rel_slack;
    assert!(
        var >= want_var * (1.0 - band) && var <= want_var * (1.0 + band),
        "{label}: std {:.4} vs expected {:.4} (N={n}, band {:.2}%)",
        var.sqrt(),
        want_var.sqrt(),
        50.0 * band
    );
}

pub fn erfc_approx(x: f64) -> f64 {
    // Numerical Recipes erfc Chebyshev fit, relative error < 1.2e-7
    let z = x.abs();
    let t = 1.0 / (1.0 + 0.5 * z);
    let r = t
        * (-z * z - 1.26551223
            + t * (1.00002368
                + t * (0.37409196
                    + t * (0.09678418
                        + t * (-0.18628806 + t * (0.27886807 + t * (-1.13520398 + t * (1.48851587 + t * (-0.82215223 + t * 0.17087277)))))))))
            .exp();
    if x >= 0.0 { r } else { 2.0 - r }
}

/// Uniformity of digits that are supposed to be uniform over [-2^(b-1), 2^(b-1)).
pub fn check_uniform_digits(label: &str, vals: &[i64], base2k: usize) {
    let n = vals.len();
    let nf = n as f64;
    assert!(n >= 1 << 10, "{label}: not enough samples ({n})");
    let half = 1i64 << (base2k - 1);
    let mut ones = vec![0usize; base2k];
    let top_bits = base2k.min(4);
    let nb = 1usize << top_bits;
    let mut top = vec![0usize; nb];
    let mut low = vec![0usize; nb];
    let (mut mn, mut mx) = (i64::MAX, i64::MIN);
    let mut sum = 0.0f64;
    for &v in vals {
        mn = mn.min(v);
        mx = mx.max(v);
        assert!(
            v >= -half && v < half,
            "{label}: digit {v} outside [-2^{}, 2^{})",
            base2k - 1,
            base2k - 1
        );
        let u = (v + half) as u64;
        for (b, o) in ones.iter_mut().enumerate() {
            *o += ((u >> b) & 1) as usize;
        }
        top[(u >> (base2k - top_bits)) as usize] += 1;
        low[(u & (nb as u64 - 1)) as usize] += 1;
        sum += v as f64;
    }
    let band = Z * 0.5 * nf.sqrt();
    for (b, &o) in ones.iter().enumerate() {
        assert!(
            (o as f64 - nf / 2.0).abs() <= band,
            "{label}: bit {b} of the digit is unbalanced: {o} ones out of {n}"
        );
    }
    for (name, hist) in [("top", &top), ("low", &low)] {
        let exp = nf / nb as f64;
        let chi2: f64 = hist.iter().map(|&c| (c as f64 - exp) * (c as f64 - exp) / exp).sum();
        // threshold derived for 15 dof; fewer buckets only make it more lenient
        assert!(
            chi2 <= CHI2_15_MAX,
            "{label}: chi-square over the {name} {top_bits} bits = {chi2:.1} (hist {hist:?})"
        );
    }
    // mean of a uniform digit is -1/2, std 2^b/sqrt(12)
    let std = (base2k as f64).exp2() / 12f64.sqrt();
    assert!(
        (sum / nf + 0.5).abs() <= Z * std / nf.sqrt(),
        "{label}: digit mean {} too far from -0.5",
        sum / nf
    );
    // the extremes of the range must be approached: P(max < 2^(b-1) - 2^b * 64/N) = (1-64/N)^N ~ e^-64
    let margin = ((base2k as f64).exp2() * 64.0 / nf).ceil() as i64;
    assert!(
        mx >= half - 1 - margin && mn <= -half + margin,
        "{label}: digits do not span the full range: min {mn}, max {mx}, b = {base2k}"
    );
}

/// Fraction of positions at which two digit vectors coincide must be what independent uniform
/// digits give (2^-b), within the band. Used for "masks differ everywhere".
/// Smallest k with P(Poisson(lambda) >= k) < 2^-60 (Chernoff bound e^-l (e l / k)^k).
pub fn poisson_upper(lambda: f64) -> f64 {
    let mut k = (lambda + 1.0).ceil();
    loop {
        let log_p = -lambda + k * (1.0 + (lambda / k).ln());
        if log_p < -60.0 * std::f64::consts::LN_2 {
            return k;
        }
        k += 1.0;
    }
}

/// Largest k with P(Poisson(lambda) <= k) < 2^-60, or -1.
pub fn poisson_lower(lambda: f64) -> f64 {
    let mut k = (lambda - 1.0).floor();
    while k > 0.0 {
        let log_p = -lambda + k * (1.0 + (lambda / k).ln());
        if log_p < -60.0 * std::f64::consts::LN_2 {
            return k;
        }
        k -= 1.0;
    }
    -1.0
}

pub static INDEP_CALLS: std::sync::atomic::AtomicUsize = std::sync::atomic::AtomicUsize::new(0);
pub static INDEP_GE1: std::sync::atomic::AtomicUsize = std::sync::atomic::AtomicUsize::new(0);
pub static INDEP_GE2: std::sync::atomic::AtomicUsize = std::sync::atomic::AtomicUsize::new(0);

/// Number of positions at which two digit vectors coincide must be what independent uniform
/// digits give (Poisson with mean N*2^-b). Used for "masks differ everywhere".
pub fn check_independent_digits(label: &str, a: &[i64], b: &[i64], base2k: usize) {
    use std::sync::atomic::Ordering::Relaxed;
    assert_eq!(a.len(), b.len());
    let n = a.len() as f64;
    let eq = a.iter().zip(b.iter()).filter(|(x, y)| x == y).count() as f64;
    let p = (-(base2k as f64)).exp2();
    let lambda = n * p;
    if base2k >= 16 {
        INDEP_CALLS.fetch_add(1, Relaxed);
        if eq >= 1.0 {
            INDEP_GE1.fetch_add(1, Relaxed);
        }
        if eq >= 2.0 {
            INDEP_GE2.fetch_add(1, Relaxed);
            if std::env::var("C06_TRACE").is_ok() {
                let pos: Vec<usize> = a.iter().zip(b.iter()).enumerate().filter(|(_, (x, y))| x == y).map(|(i, _)| i).collect();
                eprintln!("GE2 n={n} b={base2k}: {label}: positions {pos:?}");
            }
        }
    }
    assert!(
        eq < poisson_upper(lambda) && eq > poisson_lower(lambda),
        "{label}: {eq} coinciding digits out of {n} (expected {lambda:.3}): streams are not independent"
    );
    // and no linear correlation
    let std2 = (2.0 * base2k as f64).exp2() / 12.0;
    let dot: f64 = a.iter().zip(b.iter()).map(|(x, y)| (*x as f64 + 0.5) * (*y as f64 + 0.5)).sum();
    assert!(
        dot.abs() <= Z * std2 * n.sqrt(),
        "{label}: digit streams are correlated: dot = {dot:e}, band {:e}",
        Z * std2 * n.sqrt()
    );
}

/// Two small error vectors must not be correlated (nor identical).
pub fn check_independent_errors(label: &str, a: &[i128], b: &[i128]) {
    assert_eq!(a.len(), b.len());
    let n = a.len() as f64;
    let va: f64 = a.iter().map(|x| (*x as f64) * (*x as f64)).sum::<f64>() / n;
    let vb: f64 = b.iter().map(|x| (*x as f64) * (*x as f64)).sum::<f64>() / n;
    let dot: f64 = a.iter().zip(b.iter()).map(|(x, y)| (*x as f64) * (*y as f64)).sum();
    assert!(
        dot.abs() <= Z * (va * vb).sqrt() * n.sqrt(),
        "{label}: error streams are correlated: normalized dot {} (band {})",
        dot / ((va * vb).sqrt() * n.sqrt()),
        Z
    );
}

pub fn limbs_of<D: DataRef>(v: &VecZnx<D>, col: usize) -> Vec<Vec<i64>> {
    (0..v.size()).map(|j| v.at(col, j).to_vec()).collect()
}

pub fn all_limbs<D: DataRef>(v: &VecZnx<D>) -> Vec<Vec<Vec<i64>>> {
    (0..v.cols()).map(|c| limbs_of(v, c)).collect()
}

/// Accumulates digit samples per (cell, column, limb).
#[derive(Default)]
pub struct DigitPool {
    pub pools: std::collections::BTreeMap<(usize, usize, usize), Vec<i64>>,
}

impl DigitPool {
    pub fn push<D: DataRef>(&mut self, cell: usize, v: &VecZnx<D>, cols: std::ops::Range<usize>) {
        for c in cols {
            for j in 0..v.size() {
                self.pools.entry((cell, c, j)).or_default().extend_from_slice(v.at(c, j));
            }
        }
    }
    pub fn push_raw(&mut self, cell: usize, col: usize, limb: usize, vals: &[i64]) {
        self.pools.entry((cell, col, limb)).or_default().extend_from_slice(vals);
    }
    pub fn check(&self, label: &str, base2k: usize) {
        for ((cell, c, j), vals) in &self.pools {
            check_uniform_digits(&format!("{label} cell {cell} col {c} limb {j}"), vals, base2k);
        }
    }
}

// ---------------------------------------------------------------------------------------------
// secrets with known coefficients
// ---------------------------------------------------------------------------------------------

use poulpy_core::layouts::{GLWESecret, LWESecret};
use poulpy_hal::{layouts::ScalarZnx, source::Source};

#[derive(Clone, Copy, Debug, PartialEq)]
pub enum SkDist {
    TernaryProb(f64),
    TernaryHw(usize),
    BinaryProb(f64),
    BinaryHw(usize),
    BinaryBlock(usize),
}

pub fn all_dists(n: usize) -> Vec<SkDist> {
    vec![
        SkDist::TernaryProb(0.5),
        SkDist::TernaryHw(n / 4),
        SkDist::BinaryProb(0.5),
        SkDist::BinaryHw(n / 2),
        SkDist::BinaryBlock(8),
    ]
}

pub fn fill_scalar(s: &mut ScalarZnx<Vec<u8>>, col: usize, dist: SkDist, src: &mut Source) {
    match dist {
        SkDist::TernaryProb(p) => s.fill_ternary_prob(col, p, src),
        SkDist::TernaryHw(h) => s.fill_ternary_hw(col, h, src),
        SkDist::BinaryProb(p) => s.fill_binary_prob(col, p, src),
        SkDist::BinaryHw(h) => s.fill_binary_hw(col, h, src),
        SkDist::BinaryBlock(b) => s.fill_binary_block(col, b, src),
    }
}

/// A GLWE secret together with its coefficients. GLWESecret does not expose its data, so the
/// coefficients are regenerated from the same seed with the same public ScalarZnx samplers
/// (the recovered error being small confirms the two agree).
pub fn make_glwe_sk(n: usize, rank: usize, dist: SkDist, sd: [u8; 32]) -> (GLWESecret<Vec<u8>>, Vec<Vec<i64>>) {
    let mut sk = GLWESecret::alloc((n as u32).into(), (rank as u32).into());
    let mut src = Source::new(sd);
    match dist {
        SkDist::TernaryProb(p) => sk.fill_ternary_prob(p, &mut src),
        SkDist::TernaryHw(h) => sk.fill_ternary_hw(h, &mut src),
        SkDist::BinaryProb(p) => sk.fill_binary_prob(p, &mut src),
        SkDist::BinaryHw(h) => sk.fill_binary_hw(h, &mut src),
        SkDist::BinaryBlock(b) => sk.fill_binary_block(b, &mut src),
    }
    let mut raw: ScalarZnx<Vec<u8>> = ScalarZnx::alloc(n, rank);
    let mut src = Source::new(sd);
    for i in 0..rank {
        fill_scalar(&mut raw, i, dist, &mut src);
    }
    let coeffs = (0..rank).map(|i| raw.at(i, 0).to_vec()).collect();
    (sk, coeffs)
}

pub fn make_lwe_sk(n: usize, dist: SkDist, sd: [u8; 32]) -> (LWESecret<Vec<u8>>, Vec<i64>) {
    let mut sk = LWESecret::alloc((n as u32).into());
    let mut src = Source::new(sd);
    match dist {
        SkDist::TernaryProb(p) => sk.fill_ternary_prob(p, &mut src),
        SkDist::TernaryHw(h) => sk.fill_ternary_hw(h, &mut src),
        SkDist::BinaryProb(p) => sk.fill_binary_prob(p, &mut src),
        SkDist::BinaryHw(h) => sk.fill_binary_hw(h, &mut src),
        SkDist::BinaryBlock(b) => sk.fill_binary_block(b, &mut src),
    }
    let raw = sk.raw().to_vec();
    (sk, raw)
}
