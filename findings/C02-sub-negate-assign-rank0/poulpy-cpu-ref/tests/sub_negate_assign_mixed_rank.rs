//! res = a - res computed in place must equal the out-of-place a - res on every column, also when `a` is a rank-0 plaintext.
use poulpy_core::{
    GLWESub,
    layouts::{GLWE, GLWELayout},
};
use poulpy_cpu_ref::FFT64Ref as BE;
use poulpy_hal::{
    api::ModuleNew,
    layouts::{Module, ZnxView, ZnxViewMut},
};

fn filled(n: usize, rank: usize, seed: i64) -> GLWE<Vec<u8>> {
    let mut g: GLWE<Vec<u8>> = GLWE::alloc_from_infos(&GLWELayout { n: (n as u32).into(), base2k: 12u32.into(), k: 24u32.into(), rank: (rank as u32).into() });
    for c in 0..rank + 1 {
        for j in 0..2 {
            for (i, x) in g.data_mut().at_mut(c, j).iter_mut().enumerate() {
                *x = (seed * 31 + (c as i64) * 7 + (j as i64) * 3 + i as i64) % 1000 - 500;
            }
        }
    }
    g
}

#[test]
fn sub_negate_assign_equals_out_of_place_for_plaintext_operand() {
    let n = 16usize;
    let module: Module<BE> = Module::<BE>::new(n as u64);
    for a_rank in [0usize, 1] {
        let a = filled(n, a_rank, 5);
        let res0 = filled(n, 1, 9);
        // out of place: want = a - res0
        let mut want = filled(n, 1, 1);
        module.glwe_sub(&mut want, &a, &res0);
        // in place: res = a - res
        let mut res = filled(n, 1, 9);
        module.glwe_sub_negate_assign(&mut res, &a);
        assert_eq!(res.data().raw(), want.data().raw(), "a.rank = {a_rank}: in-place a - res differs from out-of-place a - res");
    }
}
