//! C11 at the poulpy-core level: results must not depend on the prior contents of the output object or of the
//! scratch arena (encryption with fixed seeds, decryption, key-switch, external product, automorphism).
//!
//! Run: cargo test --offline -p poulpy-cpu-ref --test c11_core_dirty
mod common;

mod fft64 {
    type BE = poulpy_cpu_ref::FFT64Ref;
    const BACKEND: &str = "fft64";
    include!("suite/core_body.rs");
}

mod ntt120 {
    type BE = poulpy_cpu_ref::NTT120Ref;
    const BACKEND: &str = "ntt120";
    include!("suite/core_body.rs");
}
