//! C11 - outputs are fully determined by inputs (no stale data, no stray writes):
//! VecZnxDft / VecZnxBig / SVP / convolution HAL operations on both reference backends.
//!
//! Run: cargo test --offline -p poulpy-cpu-ref --test c11_dft_family -- --test-threads 4
mod common;

mod fft64 {
    type BE = poulpy_cpu_ref::FFT64Ref;
    type Big = i64;
    const BACKEND: &str = "fft64";
    include!("suite/dft_body.rs");
}

mod ntt120 {
    type BE = poulpy_cpu_ref::NTT120Ref;
    type Big = i128;
    const BACKEND: &str = "ntt120";
    include!("suite/dft_body.rs");
}
