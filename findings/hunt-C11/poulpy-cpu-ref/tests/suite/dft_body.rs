// Body shared by both backends (included inside a module that defines `type BE`, `type Big`, `BACKEND`).
//
// C11 for the VecZnxBig / VecZnxDft / SVP / convolution HAL operations.
//
// Same protocol as `vec_znx_body.rs`: two runs on outputs and scratch pre-filled with independent garbage,
// byte-exact comparison of the selected column between the runs and with the 1-column run, every other
// byte of the output container unchanged, read-only operands unchanged, and an exact integer model
// (values read back through `vec_znx_idft_apply` for DFT-domain results).

use crate::common::*;
use poulpy_cpu_ref::{api::*, layouts::*, source::Source};
use std::panic::{AssertUnwindSafe, catch_unwind};

type DftO = VecZnxDft<DeviceBuf<BE>, BE>;
type BigO = VecZnxBig<DeviceBuf<BE>, BE>;
type PpolO = SvpPPol<DeviceBuf<BE>, BE>;
type CnvLO = CnvPVecL<DeviceBuf<BE>, BE>;
type CnvRO = CnvPVecR<DeviceBuf<BE>, BE>;

fn module(n: usize) -> Module<BE> {
    Module::<BE>::new(n as u64)
}

fn scratch(bytes: usize, rng: &mut Rng) -> ScratchOwned<BE> {
    let mut s: ScratchOwned<BE> = ScratchOwned::alloc(bytes);
    rng.fill_bytes(s.data.as_mut());
    s
}

fn rand_lm(rng: &mut Rng, n: usize, size: usize, bits: u32) -> Lm128 {
    (0..size)
        .map(|_| (0..n).map(|_| rng.small(bits) as i128).collect())
        .collect()
}

fn vz_from(n: usize, l: &Lm128) -> VecZnx<Vec<u8>> {
    let mut v = VecZnx::alloc(n, 1, l.len());
    for (j, x) in l.iter().enumerate() {
        for (d, s) in v.at_mut(0, j).iter_mut().zip(x) {
            *d = *s as i64;
        }
    }
    v
}

#[derive(Clone, Copy, PartialEq, Debug)]
enum Kind {
    S,
    B,
    D,
    P,
    L,
    R,
}

/// Owned container of any of the HAL layouts
enum C {
    S(VecZnx<Vec<u8>>),
    B(BigO),
    D(DftO),
    P(PpolO),
    L(CnvLO),
    R(CnvRO),
}

impl C {
    fn new(kind: Kind, n: usize, cols: usize, size: usize, extra: usize) -> C {
        match kind {
            Kind::S => {
                let mut v = VecZnx::alloc(n, cols, size + extra);
                v.size = size;
                C::S(v)
            }
            Kind::B => {
                let mut v = BigO::alloc(n, cols, size + extra);
                v.size = size;
                C::B(v)
            }
            Kind::D => {
                let mut v = DftO::alloc(n, cols, size + extra);
                v.size = size;
                C::D(v)
            }
            Kind::P => C::P(PpolO::alloc(n, cols)),
            Kind::L => C::L(CnvLO::alloc(n, cols, size)),
            Kind::R => C::R(CnvRO::alloc(n, cols, size)),
        }
    }
    fn bytes(&self) -> &[u8] {
        match self {
            C::S(v) => v.data.as_ref(),
            C::B(v) => v.data.as_ref(),
            C::D(v) => v.data.as_ref(),
            C::P(v) => v.data.as_ref(),
            C::L(v) => v.data().as_ref(),
            C::R(v) => v.data().as_ref(),
        }
    }
    fn bytes_mut(&mut self) -> &mut [u8] {
        match self {
            C::S(v) => v.data.as_mut(),
            C::B(v) => v.data.as_mut(),
            C::D(v) => v.data.as_mut(),
            C::P(v) => v.data.as_mut(),
            C::L(v) => v.data_mut().as_mut(),
            C::R(v) => v.data_mut().as_mut(),
        }
    }
    fn poly_bytes(&self) -> usize {
        match self {
            C::S(v) => v.n() * 8,
            C::B(v) => BE::bytes_of_vec_znx_big(v.n(), 1, 1),
            C::D(v) => BE::bytes_of_vec_znx_dft(v.n(), 1, 1),
            C::P(v) => BE::bytes_of_svp_ppol(v.n(), 1),
            _ => unreachable!(),
        }
    }
    fn s(&self) -> &VecZnx<Vec<u8>> {
        if let C::S(v) = self { v } else { panic!("not a VecZnx") }
    }
    fn s_mut(&mut self) -> &mut VecZnx<Vec<u8>> {
        if let C::S(v) = self { v } else { panic!("not a VecZnx") }
    }
    fn b(&self) -> &BigO {
        if let C::B(v) = self { v } else { panic!("not a VecZnxBig") }
    }
    fn b_mut(&mut self) -> &mut BigO {
        if let C::B(v) = self { v } else { panic!("not a VecZnxBig") }
    }
    fn d(&self) -> &DftO {
        if let C::D(v) = self { v } else { panic!("not a VecZnxDft") }
    }
    fn d_mut(&mut self) -> &mut DftO {
        if let C::D(v) = self { v } else { panic!("not a VecZnxDft") }
    }
    fn p(&self) -> &PpolO {
        if let C::P(v) = self { v } else { panic!("not a SvpPPol") }
    }
    fn p_mut(&mut self) -> &mut PpolO {
        if let C::P(v) = self { v } else { panic!("not a SvpPPol") }
    }
    fn l(&self) -> &CnvLO {
        if let C::L(v) = self { v } else { panic!("not a CnvPVecL") }
    }
    fn r(&self) -> &CnvRO {
        if let C::R(v) = self { v } else { panic!("not a CnvPVecR") }
    }

    /// Writes the integer limbs `l` into column `col` (through the library's conversion for D / P).
    fn set_col(&mut self, m: &Module<BE>, col: usize, l: &Lm128) {
        match self {
            C::S(v) => {
                assert_eq!(v.size(), l.len());
                for (j, x) in l.iter().enumerate() {
                    for (d, s) in v.at_mut(col, j).iter_mut().zip(x) {
                        *d = *s as i64;
                    }
                }
            }
            C::B(v) => {
                assert_eq!(v.size(), l.len());
                for (j, x) in l.iter().enumerate() {
                    for (d, s) in v.at_mut(col, j).iter_mut().zip(x) {
                        *d = *s as Big;
                    }
                }
            }
            C::D(v) => {
                assert_eq!(v.size(), l.len());
                let src = vz_from(v.n(), l);
                m.vec_znx_dft_apply(1, 0, v, col, &src, 0);
            }
            C::P(v) => {
                assert_eq!(l.len(), 1);
                let src = vz_from(v.n(), l);
                let sc = ScalarZnx {
                    data: src.data.as_slice(),
                    n: src.n,
                    cols: 1,
                };
                m.svp_prepare(v, col, &sc, 0);
            }
            _ => unreachable!(),
        }
    }

    /// Integer limbs of column `col` (through `vec_znx_idft_apply` for D).
    fn get_col(&self, m: &Module<BE>, col: usize) -> Lm128 {
        match self {
            C::S(v) => (0..v.size())
                .map(|j| v.at(col, j).iter().map(|x| *x as i128).collect())
                .collect(),
            C::B(v) => (0..v.size())
                .map(|j| v.at(col, j).iter().map(|x| *x as i128).collect())
                .collect(),
            C::D(v) => {
                let mut big = BigO::alloc(v.n(), 1, v.size());
                let mut s: ScratchOwned<BE> = ScratchOwned::alloc(m.vec_znx_idft_apply_tmp_bytes());
                m.vec_znx_idft_apply(&mut big, 0, v, col, s.borrow());
                (0..v.size())
                    .map(|j| big.at(0, j).iter().map(|x| *x as i128).collect())
                    .collect()
            }
            _ => Vec::new(),
        }
    }

    /// Input container: column `col` holds `l`, everything else is noise.
    #[allow(clippy::too_many_arguments)]
    fn input(kind: Kind, m: &Module<BE>, n: usize, cols: usize, size: usize, extra: usize, col: usize, l: &Lm128, rng: &mut Rng) -> C {
        match kind {
            Kind::L | Kind::R => {
                // prepared convolution operands are built from a whole VecZnx: other columns get small random values
                let mut src = VecZnx::alloc(n, cols, size);
                for x in src.raw_mut().iter_mut() {
                    *x = rng.small(8);
                }
                for (j, x) in l.iter().enumerate() {
                    for (d, s) in src.at_mut(col, j).iter_mut().zip(x) {
                        *d = *s as i64;
                    }
                }
                let mut c = C::new(kind, n, cols, size, 0);
                rng.fill_bytes(c.bytes_mut());
                match &mut c {
                    C::L(v) => {
                        let mut s = scratch(m.cnv_prepare_left_tmp_bytes(size, size), rng);
                        m.cnv_prepare_left(v, &src, -1, s.borrow());
                    }
                    C::R(v) => {
                        let mut s = scratch(m.cnv_prepare_right_tmp_bytes(size, size), rng);
                        m.cnv_prepare_right(v, &src, -1, s.borrow());
                    }
                    _ => unreachable!(),
                }
                c
            }
            _ => {
                let mut c = C::new(kind, n, cols, size, extra);
                rng.fill_bytes(c.bytes_mut());
                c.set_col(m, col, l);
                c
            }
        }
    }
}

type Checker<'a> = &'a dyn Fn(&Lm128, &Lm128, &Lm128, &Lm128) -> Result<(), String>;
type Runner<'a> = &'a dyn Fn(&mut C, usize, &mut C, usize, &C, usize, &mut Rng);

struct Drive<'a> {
    op: &'a str,
    tag: String,
    n: usize,
    kinds: (Kind, Kind, Kind),
    /// (res_size, a_size, b_size)
    sizes: Vec<(usize, usize, usize)>,
    inplace: bool,
    /// `a` is documented as being used as temporary storage: only its selected column may change
    a_is_tmp: bool,
    /// spare capacity limbs of a (0 when reinterpreted as ScalarZnx)
    a_extra: usize,
    bits: u32,
    run: Runner<'a>,
    check: Option<Checker<'a>>,
}

fn col_configs() -> Vec<(usize, usize, usize, usize, usize, usize)> {
    let mut v = vec![(1, 0, 1, 0, 1, 0)];
    for res_cols in 1..=3usize {
        for res_col in 0..res_cols {
            for a_cols in 1..=3usize {
                for a_col in 0..a_cols {
                    let b_cols = 1 + (res_col + a_col) % 3;
                    let b_col = (res_col + 2 * a_col) % b_cols;
                    if (res_cols, a_cols, b_cols) != (1, 1, 1) {
                        v.push((res_cols, res_col, a_cols, a_col, b_cols, b_col));
                    }
                }
            }
        }
    }
    v
}

fn panic_msg(e: Box<dyn std::any::Any + Send>) -> String {
    e.downcast_ref::<String>()
        .cloned()
        .or_else(|| e.downcast_ref::<&str>().map(|s| s.to_string()))
        .unwrap_or_default()
}

fn drive(f: &mut Fails, m: &Module<BE>, d: Drive) {
    let mut rng = Rng::new(0xD0F7 + d.op.len() as u64 * 104729 + d.n as u64 + d.tag.len() as u64 * 31);
    let (rk, ak, bk) = d.kinds;
    let n = d.n;
    for &(res_size, a_size, b_size) in &d.sizes {
        let a_size = if ak == Kind::P { 1 } else { a_size };
        let a_lm = rand_lm(&mut rng, n, a_size, d.bits);
        let b_lm = rand_lm(&mut rng, n, b_size, d.bits);
        let preset = if d.inplace {
            rand_lm(&mut rng, n, res_size, d.bits)
        } else {
            Vec::new()
        };
        let mut baseline: Option<Vec<u8>> = None;

        for (res_cols, res_col, a_cols, a_col, b_cols, b_col) in col_configs() {
            let case = format!(
                "[{BACKEND} {} n={n} res(cols={res_cols},col={res_col},size={res_size}) a(cols={a_cols},col={a_col},size={a_size}) b(cols={b_cols},col={b_col},size={b_size})]",
                d.tag
            );
            f.cases += 1;

            let b = C::input(bk, m, n, b_cols, b_size, 1, b_col, &b_lm, &mut rng);
            let b_before = b.bytes().to_vec();

            let mut outs: Vec<Vec<u8>> = Vec::new();
            let mut ints: Lm128 = Vec::new();
            let mut bad = false;
            for _run in 0..2 {
                let mut a = C::input(ak, m, n, a_cols, a_size, d.a_extra, a_col, &a_lm, &mut rng);
                let a_before = a.bytes().to_vec();

                let mut res = C::new(rk, n, res_cols, res_size, 1);
                rng.fill_bytes(res.bytes_mut());
                if d.inplace {
                    res.set_col(m, res_col, &preset);
                }
                let before = res.bytes().to_vec();
                let r = catch_unwind(AssertUnwindSafe(|| {
                    (d.run)(&mut res, res_col, &mut a, a_col, &b, b_col, &mut rng);
                }));
                if let Err(e) = r {
                    f.add(d.op, format!("{case}: PANIC {}", panic_msg(e)));
                    bad = true;
                    break;
                }
                let pb = res.poly_bytes();
                let rsz = if rk == Kind::P { 1 } else { res_size };
                check_outside(f, d.op, &case, "res", &before, res.bytes(), pb, res_cols, rsz, |c, _| c == res_col);
                if d.a_is_tmp {
                    let apb = a.poly_bytes();
                    check_outside(f, d.op, &case, "a", &a_before, a.bytes(), apb, a_cols, a_size, |c, _| c == a_col);
                } else if a.bytes() != a_before.as_slice() {
                    f.add(d.op, format!("{case}: STRAY WRITE read-only operand a modified"));
                }
                outs.push(col_bytes(res.bytes(), pb, res_cols, rsz, res_col));
                ints = res.get_col(m, res_col);
            }
            if bad {
                continue;
            }
            if b.bytes() != b_before.as_slice() {
                f.add(d.op, format!("{case}: STRAY WRITE read-only operand b modified"));
            }
            if outs[0] != outs[1] {
                f.add(
                    d.op,
                    format!("{case}: STALE selected column depends on prior contents of res/scratch"),
                );
                continue;
            }
            match &baseline {
                None => {
                    if let Some(chk) = d.check
                        && let Err(e) = chk(&preset, &a_lm, &b_lm, &ints)
                    {
                        f.add(d.op, format!("{case}: MODEL {e}"));
                    }
                    baseline = Some(outs[0].clone());
                }
                Some(bl) => {
                    if bl != &outs[0] {
                        f.add(d.op, format!("{case}: COLUMN result differs from the 1-column run"));
                    }
                }
            }
        }
    }
}

fn sizes3() -> Vec<(usize, usize, usize)> {
    let mut v = Vec::new();
    for r in 1..=3 {
        for a in 1..=3 {
            for b in 1..=3 {
                v.push((r, a, b));
            }
        }
    }
    v
}

fn sizes2() -> Vec<(usize, usize, usize)> {
    let mut v = Vec::new();
    for r in 1..=4 {
        for a in 1..=4 {
            v.push((r, a, 1));
        }
    }
    v
}

fn sizes1() -> Vec<(usize, usize, usize)> {
    (1..=4).map(|r| (r, 1, 1)).collect()
}

/// (res_size, 1, b_size): for the SVP forms (a is the prepared scalar)
fn sizes_rb() -> Vec<(usize, usize, usize)> {
    let mut v = Vec::new();
    for r in 1..=4 {
        for b in 1..=4 {
            v.push((r, 1, b));
        }
    }
    v
}

fn exact(want: Lm128, have: &Lm128) -> Result<(), String> {
    if &want == have { Ok(()) } else { Err(first_diff(have, &want)) }
}

fn ew2(n: usize, res_size: usize, a: &Lm128, b: &Lm128, g: impl Fn(i128, i128) -> i128) -> Lm128 {
    (0..res_size)
        .map(|j| {
            let (x, y) = (limb_or_zero128(a, j, n), limb_or_zero128(b, j, n));
            x.iter().zip(&y).map(|(u, v)| g(*u, *v)).collect()
        })
        .collect()
}

fn lw1(n: usize, res_size: usize, a: &Lm128, g: impl Fn(&[i128]) -> Vec<i128>) -> Lm128 {
    (0..res_size).map(|j| g(&limb_or_zero128(a, j, n))).collect()
}

// ---------------------------------------------------------------------------------------------
// VecZnxDft
// ---------------------------------------------------------------------------------------------

#[test]
fn c11_vec_znx_dft() {
    let mut f = Fails::new();
    for n in ring_degrees() {
        let m = &module(n);
        use Kind::*;

        for step in 1..=3usize {
            for offset in 0..=4usize {
                let tag = format!("step={step} offset={offset}");
                let model = move |a: &Lm128, rs: usize| -> Lm128 {
                    (0..rs).map(|j| limb_or_zero128(a, offset + j * step, n)).collect()
                };
                drive(
                    &mut f,
                    m,
                    Drive {
                        op: "vec_znx_dft_apply",
                        tag: tag.clone(),
                        n,
                        kinds: (D, S, S),
                        sizes: sizes2(),
                        inplace: false,
                        a_is_tmp: false,
                        a_extra: 1,
                        bits: 20,
                        run: &|res, rc, a, ac, _, _, _| m.vec_znx_dft_apply(step, offset, res.d_mut(), rc, a.s(), ac),
                        check: Some(&|_, a, _, r| exact(model(a, r.len()), r)),
                    },
                );
                drive(
                    &mut f,
                    m,
                    Drive {
                        op: "vec_znx_dft_copy",
                        tag: tag.clone(),
                        n,
                        kinds: (D, D, S),
                        sizes: sizes2(),
                        inplace: false,
                        a_is_tmp: false,
                        a_extra: 1,
                        bits: 20,
                        run: &|res, rc, a, ac, _, _, _| m.vec_znx_dft_copy(step, offset, res.d_mut(), rc, a.d(), ac),
                        check: Some(&|_, a, _, r| exact(model(a, r.len()), r)),
                    },
                );
            }
        }

        let tag = String::new();
        drive(
            &mut f,
            m,
            Drive {
                op: "vec_znx_dft_add_into",
                tag: tag.clone(),
                n,
                kinds: (D, D, D),
                sizes: sizes3(),
                inplace: false,
                a_is_tmp: false,
                a_extra: 1,
                bits: 20,
                run: &|res, rc, a, ac, b, bc, _| m.vec_znx_dft_add_into(res.d_mut(), rc, a.d(), ac, b.d(), bc),
                check: Some(&|_, a, b, r| exact(ew2(n, r.len(), a, b, |x, y| x + y), r)),
            },
        );
        drive(
            &mut f,
            m,
            Drive {
                op: "vec_znx_dft_sub",
                tag: tag.clone(),
                n,
                kinds: (D, D, D),
                sizes: sizes3(),
                inplace: false,
                a_is_tmp: false,
                a_extra: 1,
                bits: 20,
                run: &|res, rc, a, ac, b, bc, _| m.vec_znx_dft_sub(res.d_mut(), rc, a.d(), ac, b.d(), bc),
                check: Some(&|_, a, b, r| exact(ew2(n, r.len(), a, b, |x, y| x - y), r)),
            },
        );
        drive(
            &mut f,
            m,
            Drive {
                op: "vec_znx_dft_add_assign",
                tag: tag.clone(),
                n,
                kinds: (D, D, S),
                sizes: sizes2(),
                inplace: true,
                a_is_tmp: false,
                a_extra: 1,
                bits: 20,
                run: &|res, rc, a, ac, _, _, _| m.vec_znx_dft_add_assign(res.d_mut(), rc, a.d(), ac),
                check: Some(&|p, a, _, r| exact(ew2(n, r.len(), p, a, |x, y| x + y), r)),
            },
        );
        drive(
            &mut f,
            m,
            Drive {
                op: "vec_znx_dft_sub_assign",
                tag: tag.clone(),
                n,
                kinds: (D, D, S),
                sizes: sizes2(),
                inplace: true,
                a_is_tmp: false,
                a_extra: 1,
                bits: 20,
                run: &|res, rc, a, ac, _, _, _| m.vec_znx_dft_sub_assign(res.d_mut(), rc, a.d(), ac),
                check: Some(&|p, a, _, r| exact(ew2(n, r.len(), p, a, |x, y| x - y), r)),
            },
        );
        drive(
            &mut f,
            m,
            Drive {
                op: "vec_znx_dft_sub_negate_assign",
                tag: tag.clone(),
                n,
                kinds: (D, D, S),
                sizes: sizes2(),
                inplace: true,
                a_is_tmp: false,
                a_extra: 1,
                bits: 20,
                run: &|res, rc, a, ac, _, _, _| m.vec_znx_dft_sub_negate_assign(res.d_mut(), rc, a.d(), ac),
                check: Some(&|p, a, _, r| exact(ew2(n, r.len(), p, a, |x, y| y - x), r)),
            },
        );
        drive(
            &mut f,
            m,
            Drive {
                op: "vec_znx_dft_zero",
                tag: tag.clone(),
                n,
                kinds: (D, S, S),
                sizes: sizes1(),
                inplace: false,
                a_is_tmp: false,
                a_extra: 1,
                bits: 20,
                run: &|res, rc, _, _, _, _, _| m.vec_znx_dft_zero(res.d_mut(), rc),
                check: Some(&|_, _, _, r| exact(vec![vec![0i128; n]; r.len()], r)),
            },
        );
        for a_scale in -4i64..=4 {
            drive(
                &mut f,
                m,
                Drive {
                    op: "vec_znx_dft_add_scaled_assign",
                    tag: format!("a_scale={a_scale}"),
                    n,
                    kinds: (D, D, S),
                    sizes: sizes2(),
                    inplace: true,
                    a_is_tmp: false,
                    a_extra: 1,
                    bits: 20,
                    run: &|res, rc, a, ac, _, _, _| m.vec_znx_dft_add_scaled_assign(res.d_mut(), rc, a.d(), ac, a_scale),
                    // res[j] += a[j + a_scale]
                    check: Some(&|p, a, _, r| {
                        let want: Lm128 = (0..r.len())
                            .map(|j| {
                                let src = j as i64 + a_scale;
                                let x = if src >= 0 { limb_or_zero128(a, src as usize, n) } else { vec![0i128; n] };
                                p[j].iter().zip(&x).map(|(u, v)| u + v).collect()
                            })
                            .collect();
                        exact(want, r)
                    }),
                },
            );
        }

        // inverse transforms
        drive(
            &mut f,
            m,
            Drive {
                op: "vec_znx_idft_apply",
                tag: tag.clone(),
                n,
                kinds: (B, D, S),
                sizes: sizes2(),
                inplace: false,
                a_is_tmp: false,
                a_extra: 1,
                bits: 20,
                run: &|res, rc, a, ac, _, _, rng| {
                    let mut s = scratch(m.vec_znx_idft_apply_tmp_bytes(), rng);
                    m.vec_znx_idft_apply(res.b_mut(), rc, a.d(), ac, s.borrow())
                },
                check: Some(&|_, a, _, r| exact(lw1(n, r.len(), a, |x| x.to_vec()), r)),
            },
        );
        drive(
            &mut f,
            m,
            Drive {
                op: "vec_znx_idft_apply_tmpa",
                tag: tag.clone(),
                n,
                kinds: (B, D, S),
                sizes: sizes2(),
                inplace: false,
                a_is_tmp: true,
                a_extra: 1,
                bits: 20,
                run: &|res, rc, a, ac, _, _, _| m.vec_znx_idft_apply_tmpa(res.b_mut(), rc, a.d_mut(), ac),
                check: Some(&|_, a, _, r| exact(lw1(n, r.len(), a, |x| x.to_vec()), r)),
            },
        );

        // consume: whole object
        let mut rng = Rng::new(77 + n as u64);
        for cols in 1..=3usize {
            for size in 1..=3usize {
                f.cases += 1;
                let cols_lm: Vec<Lm128> = (0..cols).map(|_| rand_lm(&mut rng, n, size, 20)).collect();
                let mut dft = DftO::alloc(n, cols, size);
                rng.fill_bytes(dft.data.as_mut());
                for (c, l) in cols_lm.iter().enumerate() {
                    m.vec_znx_dft_apply(1, 0, &mut dft, c, &vz_from(n, l), 0);
                }
                let big = m.vec_znx_idft_apply_consume(dft);
                for (c, l) in cols_lm.iter().enumerate() {
                    let have: Lm128 = (0..size)
                        .map(|j| big.at(c, j).iter().map(|x| *x as i128).collect())
                        .collect();
                    if &have != l {
                        f.add(
                            "vec_znx_idft_apply_consume",
                            format!("[{BACKEND} n={n} cols={cols} size={size}] col {c}: {}", first_diff(&have, l)),
                        );
                    }
                }
            }
        }
    }
    f.finish(&format!("c11_vec_znx_dft/{BACKEND}"));
}

// ---------------------------------------------------------------------------------------------
// VecZnxBig
// ---------------------------------------------------------------------------------------------

#[test]
fn c11_vec_znx_big_arith() {
    let mut f = Fails::new();
    for n in ring_degrees() {
        let m = &module(n);
        use Kind::*;
        let tag = String::new();
        macro_rules! op3 {
            ($name:literal, $kinds:expr, $call:expr, $g:expr) => {
                drive(
                    &mut f,
                    m,
                    Drive {
                        op: $name,
                        tag: tag.clone(),
                        n,
                        kinds: $kinds,
                        sizes: sizes3(),
                        inplace: false,
                        a_is_tmp: false,
                        a_extra: 1,
                        bits: 40,
                        run: &$call,
                        check: Some(&|_, a, b, r| exact(ew2(n, r.len(), a, b, $g), r)),
                    },
                )
            };
        }
        macro_rules! op2ip {
            ($name:literal, $kinds:expr, $call:expr, $g:expr) => {
                drive(
                    &mut f,
                    m,
                    Drive {
                        op: $name,
                        tag: tag.clone(),
                        n,
                        kinds: $kinds,
                        sizes: sizes2(),
                        inplace: true,
                        a_is_tmp: false,
                        a_extra: 1,
                        bits: 40,
                        run: &$call,
                        check: Some(&|p, a, _, r| exact(ew2(n, r.len(), p, a, $g), r)),
                    },
                )
            };
        }
        op3!(
            "vec_znx_big_add_into",
            (B, B, B),
            |res: &mut C, rc, a: &mut C, ac, b: &C, bc, _: &mut Rng| m.vec_znx_big_add_into(res.b_mut(), rc, a.b(), ac, b.b(), bc),
            |x, y| x + y
        );
        op3!(
            "vec_znx_big_sub",
            (B, B, B),
            |res: &mut C, rc, a: &mut C, ac, b: &C, bc, _: &mut Rng| m.vec_znx_big_sub(res.b_mut(), rc, a.b(), ac, b.b(), bc),
            |x, y| x - y
        );
        op3!(
            "vec_znx_big_add_small_into",
            (B, B, S),
            |res: &mut C, rc, a: &mut C, ac, b: &C, bc, _: &mut Rng| m
                .vec_znx_big_add_small_into(res.b_mut(), rc, a.b(), ac, b.s(), bc),
            |x, y| x + y
        );
        op3!(
            "vec_znx_big_sub_small_a",
            (B, S, B),
            |res: &mut C, rc, a: &mut C, ac, b: &C, bc, _: &mut Rng| m.vec_znx_big_sub_small_a(res.b_mut(), rc, a.s(), ac, b.b(), bc),
            |x, y| x - y
        );
        op3!(
            "vec_znx_big_sub_small_b",
            (B, B, S),
            |res: &mut C, rc, a: &mut C, ac, b: &C, bc, _: &mut Rng| m.vec_znx_big_sub_small_b(res.b_mut(), rc, a.b(), ac, b.s(), bc),
            |x, y| x - y
        );
        op2ip!(
            "vec_znx_big_add_assign",
            (B, B, S),
            |res: &mut C, rc, a: &mut C, ac, _: &C, _, _: &mut Rng| m.vec_znx_big_add_assign(res.b_mut(), rc, a.b(), ac),
            |x, y| x + y
        );
        op2ip!(
            "vec_znx_big_add_small_assign",
            (B, S, S),
            |res: &mut C, rc, a: &mut C, ac, _: &C, _, _: &mut Rng| m.vec_znx_big_add_small_assign(res.b_mut(), rc, a.s(), ac),
            |x, y| x + y
        );
        op2ip!(
            "vec_znx_big_sub_assign",
            (B, B, S),
            |res: &mut C, rc, a: &mut C, ac, _: &C, _, _: &mut Rng| m.vec_znx_big_sub_assign(res.b_mut(), rc, a.b(), ac),
            |x, y| x - y
        );
        op2ip!(
            "vec_znx_big_sub_negate_assign",
            (B, B, S),
            |res: &mut C, rc, a: &mut C, ac, _: &C, _, _: &mut Rng| m.vec_znx_big_sub_negate_assign(res.b_mut(), rc, a.b(), ac),
            |x, y| y - x
        );
        op2ip!(
            "vec_znx_big_sub_small_assign",
            (B, S, S),
            |res: &mut C, rc, a: &mut C, ac, _: &C, _, _: &mut Rng| m.vec_znx_big_sub_small_assign(res.b_mut(), rc, a.s(), ac),
            |x, y| x - y
        );
        op2ip!(
            "vec_znx_big_sub_small_negate_assign",
            (B, S, S),
            |res: &mut C, rc, a: &mut C, ac, _: &C, _, _: &mut Rng| m
                .vec_znx_big_sub_small_negate_assign(res.b_mut(), rc, a.s(), ac),
            |x, y| y - x
        );
        drive(
            &mut f,
            m,
            Drive {
                op: "vec_znx_big_negate",
                tag: tag.clone(),
                n,
                kinds: (B, B, S),
                sizes: sizes2(),
                inplace: false,
                a_is_tmp: false,
                a_extra: 1,
                bits: 40,
                run: &|res, rc, a, ac, _, _, _| m.vec_znx_big_negate(res.b_mut(), rc, a.b(), ac),
                check: Some(&|_, a, _, r| exact(lw1(n, r.len(), a, |x| x.iter().map(|v| -v).collect()), r)),
            },
        );
        drive(
            &mut f,
            m,
            Drive {
                op: "vec_znx_big_negate_assign",
                tag: tag.clone(),
                n,
                kinds: (B, S, S),
                sizes: sizes1(),
                inplace: true,
                a_is_tmp: false,
                a_extra: 1,
                bits: 40,
                run: &|res, rc, _, _, _, _, _| m.vec_znx_big_negate_assign(res.b_mut(), rc),
                check: Some(&|p, _, _, r| exact(lw1(n, r.len(), p, |x| x.iter().map(|v| -v).collect()), r)),
            },
        );
        drive(
            &mut f,
            m,
            Drive {
                op: "vec_znx_big_from_small",
                tag: tag.clone(),
                n,
                kinds: (B, S, S),
                sizes: sizes2(),
                inplace: false,
                a_is_tmp: false,
                a_extra: 1,
                bits: 40,
                run: &|res, rc, a, ac, _, _, _| m.vec_znx_big_from_small(res.b_mut(), rc, a.s(), ac),
                check: Some(&|_, a, _, r| exact(lw1(n, r.len(), a, |x| x.to_vec()), r)),
            },
        );
        for p in [1i64, -1, 3, 5, -5, 2 * n as i64 - 1, 2 * n as i64 + 3] {
            drive(
                &mut f,
                m,
                Drive {
                    op: "vec_znx_big_automorphism",
                    tag: format!("p={p}"),
                    n,
                    kinds: (B, B, S),
                    sizes: sizes2(),
                    inplace: false,
                    a_is_tmp: false,
                    a_extra: 1,
                    bits: 40,
                    run: &|res, rc, a, ac, _, _, _| m.vec_znx_big_automorphism(p, res.b_mut(), rc, a.b(), ac),
                    check: Some(&|_, a, _, r| exact(lw1(n, r.len(), a, |x| model_automorphism(p, x)), r)),
                },
            );
            drive(
                &mut f,
                m,
                Drive {
                    op: "vec_znx_big_automorphism_assign",
                    tag: format!("p={p}"),
                    n,
                    kinds: (B, S, S),
                    sizes: sizes1(),
                    inplace: true,
                    a_is_tmp: false,
                    a_extra: 1,
                    bits: 40,
                    run: &|res, rc, _, _, _, _, rng| {
                        let mut s = scratch(m.vec_znx_big_automorphism_assign_tmp_bytes(), rng);
                        m.vec_znx_big_automorphism_assign(p, res.b_mut(), rc, s.borrow())
                    },
                    check: Some(&|pz, _, _, r| exact(lw1(n, r.len(), pz, |x| model_automorphism(p, x)), r)),
                },
            );
        }
        for kk in [9usize, 12, 13, 24, 35] {
            let sizes: Vec<(usize, usize, usize)> = sizes1().into_iter().filter(|&(r, _, _)| r * 12 >= kk).collect();
            drive(
                &mut f,
                m,
                Drive {
                    op: "vec_znx_big_add_normal",
                    tag: format!("base2k=12 noise_k={kk}"),
                    n,
                    kinds: (B, S, S),
                    sizes,
                    inplace: true,
                    a_is_tmp: false,
                    a_extra: 1,
                    bits: 40,
                    run: &|res, rc, _, _, _, _, _| {
                        let mut src = Source::new([5u8; 32]);
                        m.vec_znx_big_add_normal(12, res.b_mut(), rc, NoiseInfos::new(kk, 3.2, 19.2).unwrap(), &mut src)
                    },
                    check: None,
                },
            );
        }
    }
    f.finish(&format!("c11_vec_znx_big_arith/{BACKEND}"));
}

const DFIX: usize = 100;

fn torus128(a: &Lm128, i: usize, k: usize) -> i128 {
    let mut v: i128 = 0;
    for (j, l) in a.iter().enumerate() {
        let sh = DFIX as i64 - ((j + 1) * k) as i64;
        if sh >= 0 {
            v = v.wrapping_add(l[i].wrapping_shl(sh as u32));
        } else {
            v = v.wrapping_add(l[i] >> ((-sh) as u32).min(127));
        }
    }
    v
}

#[test]
fn c11_vec_znx_big_normalize() {
    let mut f = Fails::new();
    for n in ring_degrees() {
        let m = &module(n);
        use Kind::*;
        let configs: Vec<(usize, usize, i64)> = {
            let mut v = Vec::new();
            for off in [-40i64, -27, -12, -5, -1, 0, 1, 7, 12, 17, 36, 60] {
                v.push((12usize, 12usize, off));
            }
            for (rk, ak) in [(12usize, 7usize), (7, 12), (12, 13), (5, 17), (17, 5)] {
                for off in [-(2 * ak as i64) - 1, -(ak as i64), -3, 0, 2, ak as i64, 2 * ak as i64 + 3, 6 * ak as i64] {
                    v.push((rk, ak, off));
                }
            }
            v
        };
        for (rk, ak, off) in configs {
            for bits in [ak as u32, ak as u32 + 20] {
                let tag = format!("res_base2k={rk} a_base2k={ak} res_offset={off} input_bits={bits}");
                drive(
                    &mut f,
                    m,
                    Drive {
                        op: "vec_znx_big_normalize",
                        tag: tag.clone(),
                        n,
                        kinds: (S, B, S),
                        sizes: sizes2(),
                        inplace: false,
                        a_is_tmp: false,
                        a_extra: 1,
                        bits,
                        run: &|res, rc, a, ac, _, _, rng| {
                            let mut s = scratch(m.vec_znx_big_normalize_tmp_bytes(), rng);
                            m.vec_znx_big_normalize(res.s_mut(), rk, off, rc, a.b(), ak, ac, s.borrow())
                        },
                        check: None,
                    },
                );
                drive(
                    &mut f,
                    m,
                    Drive {
                        op: "vec_znx_big_normalize_negate",
                        tag: tag.clone(),
                        n,
                        kinds: (S, B, S),
                        sizes: sizes2(),
                        inplace: false,
                        a_is_tmp: false,
                        a_extra: 1,
                        bits,
                        run: &|res, rc, a, ac, _, _, rng| {
                            let mut s = scratch(m.vec_znx_big_normalize_tmp_bytes(), rng);
                            m.vec_znx_big_normalize_negate(res.s_mut(), rk, off, rc, a.b(), ak, ac, s.borrow())
                        },
                        check: None,
                    },
                );
                // accumulate forms agree with "normalize into a fresh vector, then add / subtract"
                for sub in [false, true] {
                    drive(
                        &mut f,
                        m,
                        Drive {
                            op: if sub {
                                "vec_znx_big_normalize_sub_assign"
                            } else {
                                "vec_znx_big_normalize_add_assign"
                            },
                            tag: tag.clone(),
                            n,
                            kinds: (S, B, S),
                            sizes: sizes2(),
                            inplace: true,
                            a_is_tmp: false,
                            a_extra: 1,
                            bits,
                            run: &|res, rc, a, ac, _, _, rng| {
                                let mut s = scratch(m.vec_znx_big_normalize_tmp_bytes(), rng);
                                if sub {
                                    m.vec_znx_big_normalize_sub_assign(res.s_mut(), rk, off, rc, a.b(), ak, ac, s.borrow())
                                } else {
                                    m.vec_znx_big_normalize_add_assign(res.s_mut(), rk, off, rc, a.b(), ak, ac, s.borrow())
                                }
                            },
                            check: Some(&|p, a, _, r| {
                                // value(res) == value(preset) +/- value(normalize(a)) on the torus, exactly
                                let mut big = BigO::alloc(n, 1, a.len());
                                for (j, x) in a.iter().enumerate() {
                                    for (d, s) in big.at_mut(0, j).iter_mut().zip(x) {
                                        *d = *s as Big;
                                    }
                                }
                                let mut tmp = VecZnx::alloc(n, 1, r.len());
                                let mut s: ScratchOwned<BE> = ScratchOwned::alloc(m.vec_znx_big_normalize_tmp_bytes());
                                m.vec_znx_big_normalize(&mut tmp, rk, off, 0, &big, ak, 0, s.borrow());
                                let t: Lm128 = (0..r.len())
                                    .map(|j| tmp.at(0, j).iter().map(|x| *x as i128).collect())
                                    .collect();
                                for i in 0..n {
                                    let want = if sub {
                                        torus128(p, i, rk).wrapping_sub(torus128(&t, i, rk))
                                    } else {
                                        torus128(p, i, rk).wrapping_add(torus128(&t, i, rk))
                                    };
                                    let d = centre(torus128(r, i, rk).wrapping_sub(want), DFIX);
                                    if d != 0 {
                                        return Err(format!("coeff {i}: differs from normalize-then-add/sub by {d}"));
                                    }
                                }
                                Ok(())
                            }),
                        },
                    );
                }
            }
        }
    }
    f.finish(&format!("c11_vec_znx_big_normalize/{BACKEND}"));
}

// ---------------------------------------------------------------------------------------------
// SVP
// ---------------------------------------------------------------------------------------------

#[test]
fn c11_svp() {
    let mut f = Fails::new();
    for n in ring_degrees() {
        let m = &module(n);
        use Kind::*;
        let tag = String::new();
        drive(
            &mut f,
            m,
            Drive {
                op: "svp_prepare",
                tag: tag.clone(),
                n,
                kinds: (P, S, S),
                sizes: vec![(1, 1, 1)],
                inplace: false,
                a_is_tmp: false,
                a_extra: 0,
                bits: 8,
                run: &|res, rc, a, ac, _, _, _| {
                    let v = a.s();
                    let sc = ScalarZnx {
                        data: v.data.as_slice(),
                        n: v.n,
                        cols: v.cols,
                    };
                    m.svp_prepare(res.p_mut(), rc, &sc, ac)
                },
                check: None,
            },
        );
        let prod = move |a: &Lm128, b: &Lm128, rs: usize| -> Lm128 {
            (0..rs)
                .map(|j| model_negacyclic(&a[0], &limb_or_zero128(b, j, n)))
                .collect()
        };
        drive(
            &mut f,
            m,
            Drive {
                op: "svp_apply_dft",
                tag: tag.clone(),
                n,
                kinds: (D, P, S),
                sizes: sizes_rb(),
                inplace: false,
                a_is_tmp: false,
                a_extra: 0,
                bits: 8,
                run: &|res, rc, a, ac, b, bc, _| m.svp_apply_dft(res.d_mut(), rc, a.p(), ac, b.s(), bc),
                check: Some(&|_, a, b, r| exact(prod(a, b, r.len()), r)),
            },
        );
        drive(
            &mut f,
            m,
            Drive {
                op: "svp_apply_dft_to_dft",
                tag: tag.clone(),
                n,
                kinds: (D, P, D),
                sizes: sizes_rb(),
                inplace: false,
                a_is_tmp: false,
                a_extra: 0,
                bits: 8,
                run: &|res, rc, a, ac, b, bc, _| m.svp_apply_dft_to_dft(res.d_mut(), rc, a.p(), ac, b.d(), bc),
                check: Some(&|_, a, b, r| exact(prod(a, b, r.len()), r)),
            },
        );
        drive(
            &mut f,
            m,
            Drive {
                op: "svp_apply_dft_to_dft_assign",
                tag: tag.clone(),
                n,
                kinds: (D, P, S),
                sizes: sizes1(),
                inplace: true,
                a_is_tmp: false,
                a_extra: 0,
                bits: 8,
                run: &|res, rc, a, ac, _, _, _| m.svp_apply_dft_to_dft_assign(res.d_mut(), rc, a.p(), ac),
                check: Some(&|p, a, _, r| exact(prod(a, p, r.len()), r)),
            },
        );
    }
    f.finish(&format!("c11_svp/{BACKEND}"));
}

// ---------------------------------------------------------------------------------------------
// Convolution
// ---------------------------------------------------------------------------------------------

/// res[k] = sum_{i+j = k+off} a[i]*b[j]
fn model_cnv(n: usize, off: usize, rs: usize, a: &Lm128, b: &Lm128) -> Lm128 {
    (0..rs)
        .map(|k| {
            let mut acc = vec![0i128; n];
            for (i, ai) in a.iter().enumerate() {
                for (j, bj) in b.iter().enumerate() {
                    if i + j == k + off {
                        add128(&mut acc, &model_negacyclic(ai, bj));
                    }
                }
            }
            acc
        })
        .collect()
}

#[test]
fn c11_convolution_apply() {
    let mut f = Fails::new();
    for n in ring_degrees() {
        let m = &module(n);
        use Kind::*;
        for cnv_offset in 0..=7usize {
            let tag = format!("cnv_offset={cnv_offset}");
            drive(
                &mut f,
                m,
                Drive {
                    op: "cnv_apply_dft",
                    tag: tag.clone(),
                    n,
                    kinds: (D, L, R),
                    sizes: {
                        let mut v = sizes3();
                        v.push((6, 3, 3));
                        v.push((7, 2, 3));
                        v
                    },
                    inplace: false,
                    a_is_tmp: false,
                    a_extra: 0,
                    bits: 8,
                    run: &|res, rc, a, ac, b, bc, rng| {
                        let (rs, asz, bsz) = (res.d().size(), a.l().size(), b.r().size());
                        let mut s = scratch(m.cnv_apply_dft_tmp_bytes(cnv_offset, rs, asz, bsz), rng);
                        m.cnv_apply_dft(cnv_offset, res.d_mut(), rc, a.l(), ac, b.r(), bc, s.borrow())
                    },
                    check: Some(&|_, a, b, r| exact(model_cnv(n, cnv_offset, r.len(), a, b), r)),
                },
            );
            drive(
                &mut f,
                m,
                Drive {
                    op: "cnv_by_const_apply",
                    tag: tag.clone(),
                    n,
                    kinds: (B, S, S),
                    sizes: {
                        let mut v = sizes3();
                        v.push((6, 3, 3));
                        v.push((7, 2, 3));
                        v
                    },
                    inplace: false,
                    a_is_tmp: false,
                    a_extra: 1,
                    bits: 8,
                    run: &|res, rc, a, ac, b, bc, rng| {
                        let bv = b.s();
                        let consts: Vec<i64> = (0..bv.size()).map(|j| bv.at(bc, j)[0]).collect();
                        let (rs, asz) = (res.b().size(), a.s().size());
                        let mut s = scratch(m.cnv_by_const_apply_tmp_bytes(cnv_offset, rs, asz, consts.len()), rng);
                        m.cnv_by_const_apply(cnv_offset, res.b_mut(), rc, a.s(), ac, &consts, s.borrow())
                    },
                    check: Some(&|_, a, b, r| {
                        let bc: Lm128 = b
                            .iter()
                            .map(|l| {
                                let mut c = vec![0i128; n];
                                c[0] = l[0];
                                c
                            })
                            .collect();
                        exact(model_cnv(n, cnv_offset, r.len(), a, &bc), r)
                    }),
                },
            );
        }

        // pairwise: res = (a[i] + a[j]) * (b[i] + b[j])
        let mut rng = Rng::new(0xBA12 + n as u64);
        for cnv_offset in [0usize, 1, 3, 6] {
            for (res_size, a_size, b_size) in [(1usize, 1usize, 1usize), (2, 2, 1), (3, 2, 2), (2, 3, 3), (5, 3, 3), (7, 3, 3)] {
                for (res_cols, res_col) in [(1usize, 0usize), (2, 0), (2, 1), (3, 1), (3, 2)] {
                    for (cols, ci, cj) in [(2usize, 0usize, 1usize), (3, 2, 0), (3, 1, 1), (1, 0, 0)] {
                        f.cases += 1;
                        let case = format!(
                            "[{BACKEND} cnv_offset={cnv_offset} n={n} res(cols={res_cols},col={res_col},size={res_size}) a(cols={cols},size={a_size}) b(cols={cols},size={b_size}) i={ci} j={cj}]"
                        );
                        let mut a_src = VecZnx::alloc(n, cols, a_size);
                        let mut b_src = VecZnx::alloc(n, cols, b_size);
                        for x in a_src.raw_mut().iter_mut().chain(b_src.raw_mut().iter_mut()) {
                            *x = rng.small(7);
                        }
                        let mut a = CnvLO::alloc(n, cols, a_size);
                        let mut b = CnvRO::alloc(n, cols, b_size);
                        {
                            let mut s = scratch(m.cnv_prepare_left_tmp_bytes(a_size, a_size), &mut rng);
                            m.cnv_prepare_left(&mut a, &a_src, -1, s.borrow());
                            let mut s = scratch(m.cnv_prepare_right_tmp_bytes(b_size, b_size), &mut rng);
                            m.cnv_prepare_right(&mut b, &b_src, -1, s.borrow());
                        }
                        let (a_before, b_before) = (a.data().as_ref().to_vec(), b.data().as_ref().to_vec());
                        let get = |v: &VecZnx<Vec<u8>>, c: usize| -> Lm128 {
                            (0..v.size())
                                .map(|j| v.at(c, j).iter().map(|x| *x as i128).collect())
                                .collect()
                        };
                        let (sa, sb) = if ci == cj {
                            (get(&a_src, ci), get(&b_src, ci))
                        } else {
                            (
                                ew2(n, a_size, &get(&a_src, ci), &get(&a_src, cj), |x, y| x + y),
                                ew2(n, b_size, &get(&b_src, ci), &get(&b_src, cj), |x, y| x + y),
                            )
                        };
                        let want = model_cnv(n, cnv_offset, res_size, &sa, &sb);

                        let mut outs = Vec::new();
                        let mut ints = Vec::new();
                        let mut bad = false;
                        for _ in 0..2 {
                            let mut res = C::new(Kind::D, n, res_cols, res_size, 1);
                            rng.fill_bytes(res.bytes_mut());
                            let before = res.bytes().to_vec();
                            let r = catch_unwind(AssertUnwindSafe(|| {
                                // NOTE: the HAL delegate forwards (cnv_offset, res_size) swapped to the backend
                                // (poulpy-hal/src/delegates/convolution.rs: cnv_pairwise_apply_dft_tmp_bytes), so the
                                // documented query under-declares whenever cnv_offset < res_size.  That is a scratch
                                // (C12) matter; take the max of both orders here so that the C11 checks can run.
                                let bytes = m
                                    .cnv_pairwise_apply_dft_tmp_bytes(cnv_offset, res_size, a_size, b_size)
                                    .max(m.cnv_pairwise_apply_dft_tmp_bytes(res_size, cnv_offset, a_size, b_size));
                                let mut s = scratch(bytes, &mut rng);
                                m.cnv_pairwise_apply_dft(cnv_offset, res.d_mut(), res_col, &a, &b, ci, cj, s.borrow());
                            }));
                            if let Err(e) = r {
                                f.add("cnv_pairwise_apply_dft", format!("{case}: PANIC {}", panic_msg(e)));
                                bad = true;
                                break;
                            }
                            let pb = res.poly_bytes();
                            check_outside(
                                &mut f,
                                "cnv_pairwise_apply_dft",
                                &case,
                                "res",
                                &before,
                                res.bytes(),
                                pb,
                                res_cols,
                                res_size,
                                |c, _| c == res_col,
                            );
                            outs.push(col_bytes(res.bytes(), pb, res_cols, res_size, res_col));
                            ints = res.get_col(m, res_col);
                        }
                        if bad {
                            continue;
                        }
                        if a.data().as_ref() != a_before.as_slice() || b.data().as_ref() != b_before.as_slice() {
                            f.add("cnv_pairwise_apply_dft", format!("{case}: STRAY WRITE operand modified"));
                        }
                        if outs[0] != outs[1] {
                            f.add("cnv_pairwise_apply_dft", format!("{case}: STALE depends on prior contents"));
                        } else if ints != want {
                            f.add("cnv_pairwise_apply_dft", format!("{case}: MODEL {}", first_diff(&ints, &want)));
                        }
                    }
                }
            }
        }
    }
    f.finish(&format!("c11_convolution_apply/{BACKEND}"));
}

/// prepare_left / prepare_right / prepare_self: whole-object outputs.  Every byte must be determined by the
/// inputs (two garbage fills), and the result must be usable by cnv_apply_dft for every res/a size relation.
#[test]
fn c11_convolution_prepare() {
    let mut f = Fails::new();
    for n in ring_degrees() {
        let m = &module(n);
        let mut rng = Rng::new(0x9E9A + n as u64);
        for cols in 1..=3usize {
            for res_size in 1..=4usize {
                for a_size in 1..=4usize {
                    for mask in [-1i64, 0, 0x0f, !0x3] {
                        f.cases += 1;
                        let case = format!("[{BACKEND} n={n} cols={cols} res_size={res_size} a_size={a_size} mask={mask:#x}]");
                        let mut src = VecZnx::alloc(n, cols, a_size + 1);
                        src.size = a_size;
                        rng.fill_bytes(&mut src.data);
                        for x in src.raw_mut().iter_mut() {
                            *x = rng.small(8);
                        }
                        let src_before = src.data.clone();

                        let mut ls = Vec::new();
                        let mut rs = Vec::new();
                        let mut sl = Vec::new();
                        let mut sr = Vec::new();
                        for _ in 0..2 {
                            let mut l = CnvLO::alloc(n, cols, res_size);
                            let mut r = CnvRO::alloc(n, cols, res_size);
                            rng.fill_bytes(l.data_mut().as_mut());
                            rng.fill_bytes(r.data_mut().as_mut());
                            let mut s = scratch(m.cnv_prepare_left_tmp_bytes(res_size, a_size), &mut rng);
                            m.cnv_prepare_left(&mut l, &src, mask, s.borrow());
                            let mut s = scratch(m.cnv_prepare_right_tmp_bytes(res_size, a_size), &mut rng);
                            m.cnv_prepare_right(&mut r, &src, mask, s.borrow());
                            ls.push(l.data().as_ref().to_vec());
                            rs.push(r.data().as_ref().to_vec());

                            let mut l2 = CnvLO::alloc(n, cols, res_size);
                            let mut r2 = CnvRO::alloc(n, cols, res_size);
                            rng.fill_bytes(l2.data_mut().as_mut());
                            rng.fill_bytes(r2.data_mut().as_mut());
                            let mut s = scratch(m.cnv_prepare_self_tmp_bytes(res_size, a_size), &mut rng);
                            m.cnv_prepare_self(&mut l2, &mut r2, &src, mask, s.borrow());
                            sl.push(l2.data().as_ref().to_vec());
                            sr.push(r2.data().as_ref().to_vec());
                        }
                        if src.data != src_before {
                            f.add("cnv_prepare_*", format!("{case}: STRAY WRITE source modified"));
                        }
                        if ls[0] != ls[1] {
                            f.add("cnv_prepare_left", format!("{case}: STALE result depends on prior contents / scratch"));
                        }
                        if rs[0] != rs[1] {
                            f.add("cnv_prepare_right", format!("{case}: STALE result depends on prior contents / scratch"));
                        }
                        if sl[0] != sl[1] || sr[0] != sr[1] {
                            f.add("cnv_prepare_self", format!("{case}: STALE result depends on prior contents / scratch"));
                        }
                        if sl[0] != ls[0] {
                            f.add("cnv_prepare_self", format!("{case}: left differs from cnv_prepare_left"));
                        }
                        if sr[0] != rs[0] {
                            f.add("cnv_prepare_self", format!("{case}: right differs from cnv_prepare_right"));
                        }
                    }
                }
            }
        }
    }
    f.finish(&format!("c11_convolution_prepare/{BACKEND}"));
}

// ---------------------------------------------------------------------------------------------
// VMP (whole-object outputs: every column of `res` is written)
// ---------------------------------------------------------------------------------------------

type PmatO = VmpPMat<DeviceBuf<BE>, BE>;

/// res[co][j] = sum_{r < min(a_size, rows)} sum_{ci} a[ci][r] * M[r][ci][co][j + limb_offset]   (0 past `last`)
#[allow(clippy::too_many_arguments)]
fn model_vmp(
    n: usize,
    a: &[Lm128],           // [ci][limb]
    mat: &[Vec<Vec<Lm128>>], // [row][ci][co][limb]
    cols_out: usize,
    res_size: usize,
    limb_offset: usize,
    last: usize,
) -> Vec<Lm128> {
    let rows = mat.len();
    (0..cols_out)
        .map(|co| {
            (0..res_size)
                .map(|j| {
                    let mut acc = vec![0i128; n];
                    let src = j + limb_offset;
                    if src < last {
                        for (ci, aci) in a.iter().enumerate() {
                            for (r, ar) in aci.iter().enumerate().take(rows) {
                                add128(&mut acc, &model_negacyclic(ar, &mat[r][ci][co][src]));
                            }
                        }
                    }
                    acc
                })
                .collect()
        })
        .collect()
}

#[test]
fn c11_vmp() {
    let mut f = Fails::new();
    for n in ring_degrees() {
        let m = &module(n);
        let mut rng = Rng::new(0x7A9 + n as u64);
        for rows in 1..=3usize {
            for cols_in in 1..=2usize {
                for cols_out in 1..=3usize {
                    for size in 1..=3usize {
                        // ---- matrix + prepare (two garbage fills of pmat and scratch)
                        let mat_lm: Vec<Vec<Vec<Lm128>>> = (0..rows)
                            .map(|_| {
                                (0..cols_in)
                                    .map(|_| (0..cols_out).map(|_| rand_lm(&mut rng, n, size, 6)).collect())
                                    .collect()
                            })
                            .collect();
                        let mut mat = MatZnx::alloc(n, rows, cols_in, cols_out, size);
                        for r in 0..rows {
                            for ci in 0..cols_in {
                                let mut v = mat.at_mut(r, ci);
                                for co in 0..cols_out {
                                    for j in 0..size {
                                        for (d, s) in v.at_mut(co, j).iter_mut().zip(&mat_lm[r][ci][co][j]) {
                                            *d = *s as i64;
                                        }
                                    }
                                }
                            }
                        }
                        let mat_before = mat.data().clone();
                        let shape = format!("[{BACKEND} n={n} pmat(rows={rows},cols_in={cols_in},cols_out={cols_out},size={size})");
                        let mut pm: Vec<PmatO> = Vec::new();
                        for _ in 0..2 {
                            let mut p = PmatO::alloc(n, rows, cols_in, cols_out, size);
                            rng.fill_bytes(p.data_mut().as_mut());
                            let mut s = scratch(m.vmp_prepare_tmp_bytes(rows, cols_in, cols_out, size), &mut rng);
                            m.vmp_prepare(&mut p, &mat, s.borrow());
                            pm.push(p);
                        }
                        f.cases += 1;
                        if mat.data() != &mat_before {
                            f.add("vmp_prepare", format!("{shape}]: STRAY WRITE source matrix modified"));
                        }
                        if pm[0].data().as_ref() != pm[1].data().as_ref() {
                            f.add("vmp_prepare", format!("{shape}]: STALE prepared matrix depends on prior contents / scratch"));
                        }
                        let pmat = &pm[0];
                        let pmat_before = pmat.data().as_ref().to_vec();

                        for a_size in 1..=4usize {
                            let a_lm: Vec<Lm128> = (0..cols_in).map(|_| rand_lm(&mut rng, n, a_size, 6)).collect();
                            let mut a_dft = C::new(Kind::D, n, cols_in, a_size, 1);
                            rng.fill_bytes(a_dft.bytes_mut());
                            for (ci, l) in a_lm.iter().enumerate() {
                                a_dft.set_col(m, ci, l);
                            }
                            let a_before = a_dft.bytes().to_vec();

                            for res_size in 1..=4usize {
                                for limb_offset in 0..=size + 1 {
                                    f.cases += 1;
                                    let case = format!(
                                        "{shape} a_size={a_size} res_size={res_size} limb_offset={limb_offset}]"
                                    );
                                    let want = model_vmp(n, &a_lm, &mat_lm, cols_out, res_size, limb_offset, size);
                                    // convention of the fft64 kernel: only min(size, res_size) pmat limbs are visited
                                    let want_trunc =
                                        model_vmp(n, &a_lm, &mat_lm, cols_out, res_size, limb_offset, size.min(res_size));
                                    let mut outs = Vec::new();
                                    let mut ints: Vec<Lm128> = Vec::new();
                                    let mut bad = false;
                                    for _ in 0..2 {
                                        let mut res = C::new(Kind::D, n, cols_out, res_size, 1);
                                        rng.fill_bytes(res.bytes_mut());
                                        let before = res.bytes().to_vec();
                                        let r = catch_unwind(AssertUnwindSafe(|| {
                                            let mut s = scratch(
                                                m.vmp_apply_dft_to_dft_tmp_bytes(res_size, a_size, rows, cols_in, cols_out, size),
                                                &mut rng,
                                            );
                                            m.vmp_apply_dft_to_dft(res.d_mut(), a_dft.d(), pmat, limb_offset, s.borrow());
                                        }));
                                        if let Err(e) = r {
                                            f.add("vmp_apply_dft_to_dft", format!("{case}: PANIC {}", panic_msg(e)));
                                            bad = true;
                                            break;
                                        }
                                        let pb = res.poly_bytes();
                                        check_outside(
                                            &mut f,
                                            "vmp_apply_dft_to_dft",
                                            &case,
                                            "res",
                                            &before,
                                            res.bytes(),
                                            pb,
                                            cols_out,
                                            res_size,
                                            |_, _| true,
                                        );
                                        outs.push(res.bytes()[..pb * cols_out * res_size].to_vec());
                                        ints = (0..cols_out).map(|co| res.get_col(m, co)).collect();
                                    }
                                    if bad {
                                        continue;
                                    }
                                    if a_dft.bytes() != a_before.as_slice() || pmat.data().as_ref() != pmat_before.as_slice() {
                                        f.add("vmp_apply_dft_to_dft", format!("{case}: STRAY WRITE operand modified"));
                                    }
                                    if outs[0] != outs[1] {
                                        f.add(
                                            "vmp_apply_dft_to_dft",
                                            format!("{case}: STALE result depends on prior contents of res / scratch"),
                                        );
                                    } else if ints != want {
                                        if ints == want_trunc {
                                            f.add(
                                                "vmp_apply_dft_to_dft (limb_offset>0, res.size<pmat.size: last limb_offset limbs are zero instead of the product)",
                                                format!("{case}"),
                                            );
                                        } else {
                                            let co = (0..cols_out).find(|&c| ints[c] != want[c]).unwrap();
                                            f.add(
                                                "vmp_apply_dft_to_dft",
                                                format!("{case}: MODEL col {co}: {}", first_diff(&ints[co], &want[co])),
                                            );
                                        }
                                    }
                                }

                                // ---- vmp_apply_dft: coefficient-domain input with fewer / equal / more columns than cols_in
                                for a_cols in 1..=cols_in + 1 {
                                    f.cases += 1;
                                    let case = format!("{shape} a(cols={a_cols},size={a_size}) res_size={res_size}]");
                                    let a_src_lm: Vec<Lm128> = (0..a_cols).map(|_| rand_lm(&mut rng, n, a_size, 6)).collect();
                                    let mut a = C::new(Kind::S, n, a_cols, a_size, 1);
                                    rng.fill_bytes(a.bytes_mut());
                                    for (c, l) in a_src_lm.iter().enumerate() {
                                        a.set_col(m, c, l);
                                    }
                                    let a_before = a.bytes().to_vec();
                                    // the last min(a_cols, cols_in) columns of a feed the last columns of the product
                                    let used = a_cols.min(cols_in);
                                    let eff: Vec<Lm128> = (0..cols_in)
                                        .map(|ci| {
                                            if ci + used >= cols_in {
                                                a_src_lm[a_cols - (cols_in - ci)].clone()
                                            } else {
                                                vec![vec![0i128; n]; a_size]
                                            }
                                        })
                                        .collect();
                                    let want = model_vmp(n, &eff, &mat_lm, cols_out, res_size, 0, size);
                                    let mut outs = Vec::new();
                                    let mut ints: Vec<Lm128> = Vec::new();
                                    let mut bad = false;
                                    for _ in 0..2 {
                                        let mut res = C::new(Kind::D, n, cols_out, res_size, 1);
                                        rng.fill_bytes(res.bytes_mut());
                                        let before = res.bytes().to_vec();
                                        let r = catch_unwind(AssertUnwindSafe(|| {
                                            let mut s = scratch(
                                                m.vmp_apply_dft_tmp_bytes(res_size, a_size, rows, cols_in, cols_out, size),
                                                &mut rng,
                                            );
                                            m.vmp_apply_dft(res.d_mut(), a.s(), pmat, s.borrow());
                                        }));
                                        if let Err(e) = r {
                                            f.add("vmp_apply_dft", format!("{case}: PANIC {}", panic_msg(e)));
                                            bad = true;
                                            break;
                                        }
                                        let pb = res.poly_bytes();
                                        check_outside(
                                            &mut f,
                                            "vmp_apply_dft",
                                            &case,
                                            "res",
                                            &before,
                                            res.bytes(),
                                            pb,
                                            cols_out,
                                            res_size,
                                            |_, _| true,
                                        );
                                        outs.push(res.bytes()[..pb * cols_out * res_size].to_vec());
                                        ints = (0..cols_out).map(|co| res.get_col(m, co)).collect();
                                    }
                                    if bad {
                                        continue;
                                    }
                                    if a.bytes() != a_before.as_slice() || pmat.data().as_ref() != pmat_before.as_slice() {
                                        f.add("vmp_apply_dft", format!("{case}: STRAY WRITE operand modified"));
                                    }
                                    if outs[0] != outs[1] {
                                        f.add("vmp_apply_dft", format!("{case}: STALE result depends on prior contents of res / scratch"));
                                    } else if ints != want {
                                        let co = (0..cols_out).find(|&c| ints[c] != want[c]).unwrap();
                                        f.add("vmp_apply_dft", format!("{case}: MODEL col {co}: {}", first_diff(&ints[co], &want[co])));
                                    }
                                }
                            }
                        }
                    }
                }
            }
        }

        // vmp_zero
        let mut p = PmatO::alloc(n, 2, 2, 2, 2);
        rng.fill_bytes(p.data_mut().as_mut());
        m.vmp_zero(&mut p);
        f.cases += 1;
        if p.data().as_ref().iter().any(|b| *b != 0) {
            f.add("vmp_zero", format!("[{BACKEND} n={n}] not all zero"));
        }
    }
    f.finish(&format!("c11_vmp/{BACKEND}"));
}
