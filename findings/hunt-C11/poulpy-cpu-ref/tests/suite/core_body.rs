// Body shared by both backends.
//
// C11 at the poulpy-core level: scratch-heavy operations (encryption with fixed seeds, decryption, key
// preparation, key-switch, external product, automorphism) must produce byte-identical results whatever the
// previous contents of the output object and of the scratch arena are.

use crate::common::*;
use poulpy_core::{
    EncryptionLayout, GGSWEncryptSk, GLWEAutomorphism, GLWEAutomorphismKeyEncryptSk, GLWEDecrypt, GLWEEncryptSk,
    GLWEExternalProduct, GLWEKeyswitch, GLWESwitchingKeyEncryptSk,
    layouts::{
        GGSW, GGSWLayout, GGSWPreparedFactory, GLWE, GLWEAutomorphismKey, GLWEAutomorphismKeyLayout,
        GLWEAutomorphismKeyPreparedFactory, GLWELayout, GLWEPlaintext, GLWESecret, GLWESecretPreparedFactory, GLWESwitchingKey,
        GLWESwitchingKeyLayout, GLWESwitchingKeyPreparedFactory,
        prepared::{GGSWPrepared, GLWEAutomorphismKeyPrepared, GLWESecretPrepared, GLWESwitchingKeyPrepared},
    },
};
use poulpy_cpu_ref::{api::*, layouts::*, source::Source};

fn dirty_scratch(bytes: usize, rng: &mut Rng) -> ScratchOwned<BE> {
    let mut s: ScratchOwned<BE> = ScratchOwned::alloc(bytes);
    rng.fill_bytes(s.data.as_mut());
    s
}

fn dirty_glwe(infos: &GLWELayout, rng: &mut Rng) -> GLWE<Vec<u8>> {
    let mut g = GLWE::alloc_from_infos(infos);
    rng.fill_bytes(&mut g.data_mut().data);
    g
}

fn bytes_of(g: &GLWE<Vec<u8>>) -> Vec<u8> {
    g.data().data.clone()
}

#[test]
fn c11_core_dirty_scratch_and_output() {
    let mut f = Fails::new();
    let mut rng = Rng::new(0xC0DE);
    let n: usize = 32;
    let module: Module<BE> = Module::<BE>::new(n as u64);
    let base2k: usize = 12;
    let in_base2k: usize = base2k - 1;
    let key_base2k: usize = base2k;
    let out_base2k: usize = base2k - 2;
    let k_in: usize = 3 * in_base2k + 1;
    let max_dsize: usize = k_in.div_ceil(key_base2k);

    for rank_in in 1usize..3 {
        for rank_out in 1usize..3 {
            for dsize in 1usize..max_dsize + 1 {
                for same_base in [false, true] {
                    let (in_b, out_b) = if same_base { (key_base2k, key_base2k) } else { (in_base2k, out_base2k) };
                    let k_ksk: usize = k_in + key_base2k * dsize;
                    let dnum: usize = k_in.div_ceil(key_base2k * dsize);
                    let case = format!("[{BACKEND} n={n} rank_in={rank_in} rank_out={rank_out} dsize={dsize} dnum={dnum} in_base2k={in_b} out_base2k={out_b}]");

                    let glwe_in_infos = EncryptionLayout::new_from_default_sigma(GLWELayout {
                        n: n.into(),
                        base2k: in_b.into(),
                        k: k_in.into(),
                        rank: rank_in.into(),
                    })
                    .unwrap();
                    let glwe_in_layout = GLWELayout {
                        n: n.into(),
                        base2k: in_b.into(),
                        k: k_in.into(),
                        rank: rank_in.into(),
                    };
                    let ksk_infos = EncryptionLayout::new_from_default_sigma(GLWESwitchingKeyLayout {
                        n: n.into(),
                        base2k: key_base2k.into(),
                        k: k_ksk.into(),
                        dnum: dnum.into(),
                        dsize: dsize.into(),
                        rank_in: rank_in.into(),
                        rank_out: rank_out.into(),
                    })
                    .unwrap();

                    let mut source_xs: Source = Source::new([1u8; 32]);
                    let mut sk_in: GLWESecret<Vec<u8>> = GLWESecret::alloc(n.into(), rank_in.into());
                    sk_in.fill_ternary_prob(0.5, &mut source_xs);
                    let mut sk_in_prepared: GLWESecretPrepared<DeviceBuf<BE>, BE> = module.glwe_secret_prepared_alloc(rank_in.into());
                    module.glwe_secret_prepare(&mut sk_in_prepared, &sk_in);
                    let mut sk_out: GLWESecret<Vec<u8>> = GLWESecret::alloc(n.into(), rank_out.into());
                    sk_out.fill_ternary_prob(0.5, &mut source_xs);

                    let mut pt_in: GLWEPlaintext<Vec<u8>> = GLWEPlaintext::alloc_from_infos(&glwe_in_infos);
                    let mut source_pt: Source = Source::new([2u8; 32]);
                    module.vec_znx_fill_uniform(in_b, pt_in.data_mut(), 0, &mut source_pt);

                    // ---- glwe_encrypt_sk: fixed seeds, dirty output + dirty scratch
                    f.cases += 1;
                    let mut cts: Vec<GLWE<Vec<u8>>> = Vec::new();
                    for _ in 0..2 {
                        let mut ct = dirty_glwe(&glwe_in_layout, &mut rng);
                        let mut s = dirty_scratch(module.glwe_encrypt_sk_tmp_bytes(&glwe_in_infos), &mut rng);
                        let (mut xe, mut xa) = (Source::new([3u8; 32]), Source::new([4u8; 32]));
                        module.glwe_encrypt_sk(&mut ct, &pt_in, &sk_in_prepared, &glwe_in_infos, &mut xe, &mut xa, s.borrow());
                        cts.push(ct);
                    }
                    if bytes_of(&cts[0]) != bytes_of(&cts[1]) {
                        f.add("glwe_encrypt_sk", format!("{case}: STALE ciphertext depends on prior contents of ct / scratch"));
                    }
                    let glwe_in = &cts[0];

                    // ---- glwe_decrypt
                    f.cases += 1;
                    let mut pts = Vec::new();
                    for _ in 0..2 {
                        let mut pt: GLWEPlaintext<Vec<u8>> = GLWEPlaintext::alloc_from_infos(&glwe_in_infos);
                        rng.fill_bytes(&mut pt.data_mut().data);
                        let mut s = dirty_scratch(module.glwe_decrypt_tmp_bytes(&glwe_in_infos), &mut rng);
                        module.glwe_decrypt(glwe_in, &mut pt, &sk_in_prepared, s.borrow());
                        pts.push(pt.data().data.clone());
                    }
                    if pts[0] != pts[1] {
                        f.add("glwe_decrypt", format!("{case}: STALE plaintext depends on prior contents of pt / scratch"));
                    }

                    // ---- switching key: encrypt (fixed seeds) + prepare
                    f.cases += 1;
                    let mut ksks: Vec<GLWESwitchingKey<Vec<u8>>> = Vec::new();
                    for _ in 0..2 {
                        let mut ksk: GLWESwitchingKey<Vec<u8>> = GLWESwitchingKey::alloc_from_infos(&ksk_infos);
                        let mut s = dirty_scratch(module.glwe_switching_key_encrypt_sk_tmp_bytes(&ksk_infos), &mut rng);
                        let (mut xe, mut xa) = (Source::new([5u8; 32]), Source::new([6u8; 32]));
                        module.glwe_switching_key_encrypt_sk(&mut ksk, &sk_in, &sk_out, &ksk_infos, &mut xe, &mut xa, s.borrow());
                        ksks.push(ksk);
                    }
                    if ksks[0] != ksks[1] {
                        f.add("glwe_switching_key_encrypt_sk", format!("{case}: STALE key depends on prior contents of scratch"));
                    }
                    let ksk = &ksks[0];
                    let mut ksk_prepared: GLWESwitchingKeyPrepared<DeviceBuf<BE>, BE> =
                        module.glwe_switching_key_prepared_alloc_from_infos(ksk);
                    {
                        let mut s = dirty_scratch(module.glwe_switching_key_prepare_tmp_bytes(ksk), &mut rng);
                        module.glwe_switching_key_prepare(&mut ksk_prepared, ksk, s.borrow());
                    }

                    // ---- glwe_keyswitch (out of place), several output sizes
                    for k_out in [k_ksk, k_in, in_b + 1] {
                        f.cases += 1;
                        let glwe_out_infos: GLWELayout = GLWELayout {
                            n: n.into(),
                            base2k: out_b.into(),
                            k: k_out.into(),
                            rank: rank_out.into(),
                        };
                        let mut outs = Vec::new();
                        for _ in 0..2 {
                            let mut out = dirty_glwe(&glwe_out_infos, &mut rng);
                            let mut s = dirty_scratch(
                                module.glwe_keyswitch_tmp_bytes(&glwe_out_infos, &glwe_in_infos, &ksk_infos),
                                &mut rng,
                            );
                            module.glwe_keyswitch(&mut out, glwe_in, &ksk_prepared, s.borrow());
                            outs.push(bytes_of(&out));
                        }
                        if outs[0] != outs[1] {
                            f.add(
                                "glwe_keyswitch",
                                format!("{case} k_out={k_out}: STALE result depends on prior contents of res / scratch"),
                            );
                        }
                    }

                    if rank_in != rank_out {
                        continue;
                    }
                    let rank = rank_in;

                    // ---- glwe_keyswitch_assign
                    {
                        f.cases += 1;
                        let mut outs = Vec::new();
                        for _ in 0..2 {
                            let mut ct = GLWE::alloc_from_infos(&glwe_in_layout);
                            ct.data_mut().data.copy_from_slice(&glwe_in.data().data);
                            let mut s = dirty_scratch(
                                module.glwe_keyswitch_tmp_bytes(&glwe_in_layout, &glwe_in_layout, &ksk_infos),
                                &mut rng,
                            );
                            module.glwe_keyswitch_assign(&mut ct, &ksk_prepared, s.borrow());
                            outs.push(bytes_of(&ct));
                        }
                        if outs[0] != outs[1] {
                            f.add("glwe_keyswitch_assign", format!("{case}: STALE result depends on prior contents of scratch"));
                        }
                    }

                    // ---- GGSW: encrypt + prepare + external product
                    let ggsw_infos = EncryptionLayout::new_from_default_sigma(GGSWLayout {
                        n: n.into(),
                        base2k: key_base2k.into(),
                        k: k_ksk.into(),
                        dnum: dnum.into(),
                        dsize: dsize.into(),
                        rank: rank.into(),
                    })
                    .unwrap();
                    let mut pt_ggsw: ScalarZnx<Vec<u8>> = ScalarZnx::alloc(n, 1);
                    pt_ggsw.raw_mut()[1] = 1;
                    f.cases += 1;
                    let mut ggsws: Vec<GGSW<Vec<u8>>> = Vec::new();
                    for _ in 0..2 {
                        let mut g: GGSW<Vec<u8>> = GGSW::alloc_from_infos(&ggsw_infos);
                        let mut s = dirty_scratch(module.ggsw_encrypt_sk_tmp_bytes(&ggsw_infos), &mut rng);
                        let (mut xe, mut xa) = (Source::new([7u8; 32]), Source::new([8u8; 32]));
                        module.ggsw_encrypt_sk(&mut g, &pt_ggsw, &sk_in_prepared, &ggsw_infos, &mut xe, &mut xa, s.borrow());
                        ggsws.push(g);
                    }
                    if ggsws[0] != ggsws[1] {
                        f.add("ggsw_encrypt_sk", format!("{case}: STALE ggsw depends on prior contents of scratch"));
                    }
                    let ggsw = &ggsws[0];
                    let mut ggsw_prepared: GGSWPrepared<DeviceBuf<BE>, BE> = module.ggsw_prepared_alloc_from_infos(ggsw);
                    {
                        let mut s = dirty_scratch(module.ggsw_prepare_tmp_bytes(ggsw), &mut rng);
                        module.ggsw_prepare(&mut ggsw_prepared, ggsw, s.borrow());
                    }
                    for k_out in [k_ksk, k_in, in_b + 1] {
                        f.cases += 1;
                        let glwe_out_infos: GLWELayout = GLWELayout {
                            n: n.into(),
                            base2k: out_b.into(),
                            k: k_out.into(),
                            rank: rank.into(),
                        };
                        let mut outs = Vec::new();
                        for _ in 0..2 {
                            let mut out = dirty_glwe(&glwe_out_infos, &mut rng);
                            let mut s = dirty_scratch(
                                module.glwe_external_product_tmp_bytes(&glwe_out_infos, &glwe_in_infos, &ggsw_infos),
                                &mut rng,
                            );
                            module.glwe_external_product(&mut out, glwe_in, &ggsw_prepared, s.borrow());
                            outs.push(bytes_of(&out));
                        }
                        if outs[0] != outs[1] {
                            f.add(
                                "glwe_external_product",
                                format!("{case} k_out={k_out}: STALE result depends on prior contents of res / scratch"),
                            );
                        }
                    }
                    {
                        f.cases += 1;
                        let mut outs = Vec::new();
                        for _ in 0..2 {
                            let mut ct = GLWE::alloc_from_infos(&glwe_in_layout);
                            ct.data_mut().data.copy_from_slice(&glwe_in.data().data);
                            let mut s = dirty_scratch(
                                module.glwe_external_product_tmp_bytes(&glwe_in_layout, &glwe_in_layout, &ggsw_infos),
                                &mut rng,
                            );
                            module.glwe_external_product_assign(&mut ct, &ggsw_prepared, s.borrow());
                            outs.push(bytes_of(&ct));
                        }
                        if outs[0] != outs[1] {
                            f.add(
                                "glwe_external_product_assign",
                                format!("{case}: STALE result depends on prior contents of scratch"),
                            );
                        }
                    }

                    // ---- automorphism
                    let autokey_infos = EncryptionLayout::new_from_default_sigma(GLWEAutomorphismKeyLayout {
                        n: n.into(),
                        base2k: key_base2k.into(),
                        k: k_ksk.into(),
                        rank: rank.into(),
                        dnum: dnum.into(),
                        dsize: dsize.into(),
                    })
                    .unwrap();
                    let mut autokey: GLWEAutomorphismKey<Vec<u8>> = GLWEAutomorphismKey::alloc_from_infos(&autokey_infos);
                    {
                        let mut s = dirty_scratch(module.glwe_automorphism_key_encrypt_sk_tmp_bytes(&autokey), &mut rng);
                        let (mut xe, mut xa) = (Source::new([9u8; 32]), Source::new([10u8; 32]));
                        module.glwe_automorphism_key_encrypt_sk(&mut autokey, -5, &sk_in, &autokey_infos, &mut xe, &mut xa, s.borrow());
                    }
                    let mut autokey_prepared: GLWEAutomorphismKeyPrepared<DeviceBuf<BE>, BE> =
                        module.glwe_automorphism_key_prepared_alloc_from_infos(&autokey_infos);
                    {
                        let mut s = dirty_scratch(module.glwe_automorphism_key_prepare_tmp_bytes(&autokey), &mut rng);
                        module.glwe_automorphism_key_prepare(&mut autokey_prepared, &autokey, s.borrow());
                    }
                    for k_out in [k_ksk, k_in, in_b + 1] {
                        f.cases += 1;
                        let glwe_out_infos: GLWELayout = GLWELayout {
                            n: n.into(),
                            base2k: out_b.into(),
                            k: k_out.into(),
                            rank: rank.into(),
                        };
                        let mut outs = Vec::new();
                        for _ in 0..2 {
                            let mut out = dirty_glwe(&glwe_out_infos, &mut rng);
                            let mut s = dirty_scratch(module.glwe_automorphism_tmp_bytes(&out, glwe_in, &autokey), &mut rng);
                            module.glwe_automorphism(&mut out, glwe_in, &autokey_prepared, s.borrow());
                            outs.push(bytes_of(&out));
                        }
                        if outs[0] != outs[1] {
                            f.add(
                                "glwe_automorphism",
                                format!("{case} k_out={k_out}: STALE result depends on prior contents of res / scratch"),
                            );
                        }
                    }
                }
            }
        }
    }
    f.finish(&format!("c11_core_dirty/{BACKEND}"));
}

use poulpy_core::{
    GLWEMulConst, GLWEMulPlain, GLWETensoring,
    layouts::{GLWETensor, Dsize, GLWETensorKey, GLWETensorKeyLayout, GLWETensorKeyPreparedFactory, prepared::GLWETensorKeyPrepared},
    GLWETensorKeyEncryptSk,
};

/// Runs `$body`; a library panic is recorded as a violation of `$op` and the enclosing loop iteration is skipped.
macro_rules! guarded {
    ($f:expr, $op:expr, $case:expr, $body:block) => {
        if let Err(e) = std::panic::catch_unwind(std::panic::AssertUnwindSafe(|| $body)) {
            let msg = e
                .downcast_ref::<String>()
                .cloned()
                .or_else(|| e.downcast_ref::<&str>().map(|s| s.to_string()))
                .unwrap_or_default();
            $f.add($op, format!("{}: PANIC {msg}", $case));
            continue;
        }
    };
}

#[test]
fn c11_core_dirty_products() {
    let mut f = Fails::new();
    let mut rng = Rng::new(0x7E50);
    let n: usize = 32;
    let module: Module<BE> = Module::<BE>::new(n as u64);
    let base2k: usize = 12;

    for rank in 1usize..=3 {
        for (in_b, out_b) in [(base2k, base2k), (base2k - 1, base2k - 2), (base2k - 2, base2k)] {
            for (k_a, k_b, k_res) in [(4 * in_b + 1, 4 * in_b + 1, 4 * in_b + 1), (2 * in_b, 3 * in_b + 5, 6 * in_b), (3 * in_b, in_b, in_b + 1)] {
                let case = format!("[{BACKEND} n={n} rank={rank} in_base2k={in_b} out_base2k={out_b} k_a={k_a} k_b={k_b} k_res={k_res}]");
                let a_infos = GLWELayout { n: n.into(), base2k: in_b.into(), k: k_a.into(), rank: rank.into() };
                let b_infos = GLWELayout { n: n.into(), base2k: in_b.into(), k: k_b.into(), rank: rank.into() };
                let res_infos = GLWELayout { n: n.into(), base2k: out_b.into(), k: k_res.into(), rank: rank.into() };
                let mut src = Source::new([11u8; 32]);
                let mut a: GLWE<Vec<u8>> = GLWE::alloc_from_infos(&a_infos);
                let mut b: GLWE<Vec<u8>> = GLWE::alloc_from_infos(&b_infos);
                for c in 0..rank + 1 {
                    module.vec_znx_fill_uniform(in_b, a.data_mut(), c, &mut src);
                    module.vec_znx_fill_uniform(in_b, b.data_mut(), c, &mut src);
                }
                let mut pt_b: GLWEPlaintext<Vec<u8>> = GLWEPlaintext::alloc_from_infos(&b_infos);
                module.vec_znx_fill_uniform(in_b, pt_b.data_mut(), 0, &mut src);

                let scale = 2 * in_b;
                for off in [0usize, 5, in_b, 2 * in_b - 1] {
                    // tensor apply / square / add_assign
                    f.cases += 1;
                    let mut outs = Vec::new();
                    let mut sq = Vec::new();
                    let mut acc = Vec::new();
                    for _ in 0..2 {
                        let mut t: GLWETensor<Vec<u8>> = GLWETensor::alloc_from_infos(&res_infos);
                        rng.fill_bytes(&mut t.data_mut().data);
                        let mut s = dirty_scratch(module.glwe_tensor_apply_tmp_bytes(&t, &a, &b), &mut rng);
                        guarded!(f, "glwe_tensor_apply", case, { module.glwe_tensor_apply(scale + off, &mut t, &a, k_a, &b, k_b, s.borrow()) });
                        outs.push(t.data().data.clone());

                        // accumulate on top of the (now known) tensor
                        let mut s = dirty_scratch(module.glwe_tensor_apply_tmp_bytes(&t, &a, &b), &mut rng);
                        guarded!(f, "glwe_tensor_apply_add_assign", case, { module.glwe_tensor_apply_add_assign(scale + off, &mut t, &a, k_a, &b, k_b, s.borrow()) });
                        acc.push(t.data().data.clone());

                        let mut t2: GLWETensor<Vec<u8>> = GLWETensor::alloc_from_infos(&res_infos);
                        rng.fill_bytes(&mut t2.data_mut().data);
                        // NOTE: with exactly `glwe_tensor_square_apply_tmp_bytes` the fft64 backend panics ("Attempted to take 1024
                        // from scratch with 960 aligned bytes left"): a scratch-declaration (C12) matter, not a C11 one.
                        // Over-allocate so that the dirty-scratch determinism check can run.
                        let mut s = dirty_scratch(module.glwe_tensor_square_apply_tmp_bytes(&t2, &a) + (1 << 16), &mut rng);
                        guarded!(f, "glwe_tensor_square_apply", case, { module.glwe_tensor_square_apply(scale + off, &mut t2, &a, k_a, s.borrow()) });
                        sq.push(t2.data().data.clone());
                    }
                    if outs.len() == 2 && outs[0] != outs[1] {
                        f.add("glwe_tensor_apply", format!("{case} cnv_offset={}: STALE depends on prior contents of res / scratch", scale + off));
                    }
                    if acc.len() == 2 && acc[0] != acc[1] {
                        f.add("glwe_tensor_apply_add_assign", format!("{case} cnv_offset={}: STALE depends on prior contents of scratch", scale + off));
                    }
                    if sq.len() == 2 && sq[0] != sq[1] {
                        f.add("glwe_tensor_square_apply", format!("{case} cnv_offset={}: STALE depends on prior contents of res / scratch", scale + off));
                    }

                    // mul_plain
                    f.cases += 1;
                    let mut mp = Vec::new();
                    let mut mpa = Vec::new();
                    for _ in 0..2 {
                        let mut r = dirty_glwe(&res_infos, &mut rng);
                        let mut s = dirty_scratch(module.glwe_mul_plain_tmp_bytes(&r, &a, &pt_b), &mut rng);
                        guarded!(f, "glwe_mul_plain", case, { module.glwe_mul_plain(scale + off, &mut r, &a, k_a, &pt_b, k_b, s.borrow()) });
                        mp.push(bytes_of(&r));

                        let mut r2: GLWE<Vec<u8>> = GLWE::alloc_from_infos(&a_infos);
                        r2.data_mut().data.copy_from_slice(&a.data().data);
                        let mut s = dirty_scratch(module.glwe_mul_plain_tmp_bytes(&r2, &r2, &pt_b), &mut rng);
                        guarded!(f, "glwe_mul_plain_assign", case, { module.glwe_mul_plain_assign(scale + off, &mut r2, k_a, &pt_b, k_b, s.borrow()) });
                        mpa.push(bytes_of(&r2));
                    }
                    if mp.len() == 2 && mp[0] != mp[1] {
                        f.add("glwe_mul_plain", format!("{case} cnv_offset={}: STALE depends on prior contents of res / scratch", scale + off));
                    }
                    if mpa.len() == 2 && mpa[0] != mpa[1] {
                        f.add("glwe_mul_plain_assign", format!("{case} cnv_offset={}: STALE depends on prior contents of scratch", scale + off));
                    }

                    // mul_const
                    for b_len in [1usize, 2, 3] {
                        f.cases += 1;
                        let consts: Vec<i64> = (0..b_len).map(|_| rng.small(in_b as u32)).collect();
                        let mut mc = Vec::new();
                        let mut mca = Vec::new();
                        for _ in 0..2 {
                            let mut r = dirty_glwe(&res_infos, &mut rng);
                            let mut s = dirty_scratch(module.glwe_mul_const_tmp_bytes(&r, &a, b_len), &mut rng);
                            guarded!(f, "glwe_mul_const", case, { module.glwe_mul_const(in_b + off, &mut r, &a, &consts, s.borrow()) });
                            mc.push(bytes_of(&r));

                            let mut r2: GLWE<Vec<u8>> = GLWE::alloc_from_infos(&a_infos);
                            r2.data_mut().data.copy_from_slice(&a.data().data);
                            let mut s = dirty_scratch(module.glwe_mul_const_tmp_bytes(&r2, &r2, b_len), &mut rng);
                            guarded!(f, "glwe_mul_const_assign", case, { module.glwe_mul_const_assign(in_b + off, &mut r2, &consts, s.borrow()) });
                            mca.push(bytes_of(&r2));
                        }
                        if mc.len() == 2 && mc[0] != mc[1] {
                            f.add("glwe_mul_const", format!("{case} cnv_offset={} b_len={b_len}: STALE depends on prior contents of res / scratch", in_b + off));
                        }
                        if mca.len() == 2 && mca[0] != mca[1] {
                            f.add("glwe_mul_const_assign", format!("{case} cnv_offset={} b_len={b_len}: STALE depends on prior contents of scratch", in_b + off));
                        }
                    }
                }

                // relinearize
                let k_t = k_res.max(4 * in_b);
                let tsk_infos = EncryptionLayout::new_from_default_sigma(GLWETensorKeyLayout {
                    n: n.into(),
                    base2k: base2k.into(),
                    k: (k_t + base2k).into(),
                    rank: rank.into(),
                    dnum: k_t.div_ceil(base2k).into(),
                    dsize: Dsize(1),
                })
                .unwrap();
                let mut sk: GLWESecret<Vec<u8>> = GLWESecret::alloc(n.into(), rank.into());
                sk.fill_ternary_prob(0.5, &mut src);
                let mut tsk: GLWETensorKey<Vec<u8>> = GLWETensorKey::alloc_from_infos(&tsk_infos);
                {
                    let mut s = dirty_scratch(module.glwe_tensor_key_encrypt_sk_tmp_bytes(&tsk_infos), &mut rng);
                    let (mut xe, mut xa) = (Source::new([12u8; 32]), Source::new([13u8; 32]));
                    module.glwe_tensor_key_encrypt_sk(&mut tsk, &sk, &tsk_infos, &mut xe, &mut xa, s.borrow());
                }
                let mut tsk_prep: GLWETensorKeyPrepared<DeviceBuf<BE>, BE> = module.alloc_tensor_key_prepared_from_infos(&tsk_infos);
                {
                    let mut s = dirty_scratch(module.prepare_tensor_key_tmp_bytes(&tsk_infos), &mut rng);
                    module.prepare_tensor_key(&mut tsk_prep, &tsk, s.borrow());
                }
                let mut t: GLWETensor<Vec<u8>> = GLWETensor::alloc_from_infos(&res_infos);
                {
                    let mut s = dirty_scratch(module.glwe_tensor_apply_tmp_bytes(&t, &a, &b), &mut rng);
                    module.glwe_tensor_apply(scale, &mut t, &a, k_a, &b, k_b, s.borrow());
                }
                f.cases += 1;
                let mut rl = Vec::new();
                for _ in 0..2 {
                    let mut r = dirty_glwe(&res_infos, &mut rng);
                    let mut s = dirty_scratch(module.glwe_tensor_relinearize_tmp_bytes(&r, &t, &tsk_infos), &mut rng);
                    guarded!(f, "glwe_tensor_relinearize", case, { module.glwe_tensor_relinearize(&mut r, &t, &tsk_prep, poulpy_core::layouts::LWEInfos::size(&tsk_prep), s.borrow()) });
                    rl.push(bytes_of(&r));
                }
                if rl.len() == 2 && rl[0] != rl[1] {
                    f.add("glwe_tensor_relinearize", format!("{case}: STALE depends on prior contents of res / scratch"));
                }
            }
        }
    }
    f.finish(&format!("c11_core_dirty_products/{BACKEND}"));
}
