// Body shared by both backends (included inside a module that defines `type BE` and `BACKEND`).
//
// C11 for the coefficient-domain VecZnx HAL operations.
//
// For every operation and every shape/size/column combination the operation is run twice, on outputs
// (and scratch) pre-filled with two independent garbage patterns.  We check that
//   * the selected output column is identical in both runs (no dependence on prior contents),
//   * every byte outside the selected output column (other columns, spare capacity past `size`) is unchanged,
//   * the read-only operands are unchanged,
//   * the selected column equals the one obtained with 1-column containers (column arguments honoured),
//   * the selected column equals an independent integer model (where one is given).

use crate::common::*;
use poulpy_cpu_ref::{api::*, layouts::*, source::Source};
use std::panic::{AssertUnwindSafe, catch_unwind};

const K: usize = 12; // base2k used by the shift / normalisation tests

fn new_vz(n: usize, cols: usize, size: usize, extra: usize) -> VecZnx<Vec<u8>> {
    let mut v = VecZnx::alloc(n, cols, size + extra);
    v.size = size;
    v
}

fn get_col(v: &VecZnx<Vec<u8>>, col: usize) -> Lm {
    (0..v.size()).map(|j| v.at(col, j).to_vec()).collect()
}

fn set_col(v: &mut VecZnx<Vec<u8>>, col: usize, l: &Lm) {
    assert_eq!(v.size(), l.len());
    for (j, x) in l.iter().enumerate() {
        v.at_mut(col, j).copy_from_slice(x);
    }
}

fn rand_lm(rng: &mut Rng, n: usize, size: usize, bits: u32) -> Lm {
    (0..size).map(|_| (0..n).map(|_| rng.small(bits)).collect()).collect()
}

fn scratch(bytes: usize, rng: &mut Rng) -> ScratchOwned<BE> {
    let mut s: ScratchOwned<BE> = ScratchOwned::alloc(bytes);
    rng.fill_bytes(s.data.as_mut());
    s
}

fn module(n: usize) -> Module<BE> {
    Module::<BE>::new(n as u64)
}

type Checker<'a> = &'a dyn Fn(&Lm, &Lm, &Lm, &Lm) -> Result<(), String>;
type Runner<'a> = &'a dyn Fn(&mut VecZnx<Vec<u8>>, usize, &VecZnx<Vec<u8>>, usize, &VecZnx<Vec<u8>>, usize, &mut Rng);

struct Drive<'a> {
    op: &'a str,
    /// extra parameters, for the failure message only
    tag: String,
    n_res: usize,
    n_a: usize,
    /// (res_size, a_size, b_size)
    sizes: Vec<(usize, usize, usize)>,
    /// selected column of `res` is an input too (in-place / accumulate forms)
    inplace: bool,
    /// spare capacity limbs for a (0 when `a` is reinterpreted as a ScalarZnx)
    a_extra: usize,
    /// bits of the random inputs
    bits: u32,
    run: Runner<'a>,
    check: Option<Checker<'a>>,
}

fn col_configs() -> Vec<(usize, usize, usize, usize, usize, usize)> {
    // (res_cols, res_col, a_cols, a_col, b_cols, b_col); first entry is the 1-column baseline
    let mut v = vec![(1, 0, 1, 0, 1, 0)];
    for res_cols in 1..=3usize {
        for res_col in 0..res_cols {
            for a_cols in 1..=3usize {
                for a_col in 0..a_cols {
                    let b_cols = 1 + (res_col + a_col) % 3;
                    let b_col = (res_col + 2 * a_col) % b_cols;
                    if (res_cols, a_cols, b_cols) != (1, 1, 1) {
                        v.push((res_cols, res_col, a_cols, a_col, b_cols, b_col));
                    }
                }
            }
        }
    }
    v
}

fn drive(f: &mut Fails, d: Drive) {
    let mut rng = Rng::new(0xC11 + d.op.len() as u64 * 7919 + d.n_res as u64);
    for &(res_size, a_size, b_size) in &d.sizes {
        let a_lm = rand_lm(&mut rng, d.n_a, a_size, d.bits);
        let b_lm = rand_lm(&mut rng, d.n_res, b_size, d.bits);
        let preset = if d.inplace {
            rand_lm(&mut rng, d.n_res, res_size, d.bits)
        } else {
            Vec::new()
        };
        let mut baseline: Option<Lm> = None;

        for (res_cols, res_col, a_cols, a_col, b_cols, b_col) in col_configs() {
            let case = format!(
                "[{BACKEND} {} n={} res(cols={res_cols},col={res_col},size={res_size}) a(n={},cols={a_cols},col={a_col},size={a_size}) b(cols={b_cols},col={b_col},size={b_size})]",
                d.tag, d.n_res, d.n_a
            );
            f.cases += 1;

            // inputs: selected columns hold the case data, other columns random
            let mut a = new_vz(d.n_a, a_cols, a_size, d.a_extra);
            rng.fill_bytes(&mut a.data);
            set_col(&mut a, a_col, &a_lm);
            let mut b = new_vz(d.n_res, b_cols, b_size, 1);
            rng.fill_bytes(&mut b.data);
            set_col(&mut b, b_col, &b_lm);
            let a_before = a.data.clone();
            let b_before = b.data.clone();

            let mut outs: Vec<Lm> = Vec::new();
            let mut panicked = false;
            for _run in 0..2 {
                let mut res = new_vz(d.n_res, res_cols, res_size, 1);
                rng.fill_bytes(&mut res.data);
                if d.inplace {
                    set_col(&mut res, res_col, &preset);
                }
                let before = res.data.clone();
                let r = catch_unwind(AssertUnwindSafe(|| {
                    (d.run)(&mut res, res_col, &a, a_col, &b, b_col, &mut rng);
                }));
                if let Err(e) = r {
                    let msg = e
                        .downcast_ref::<String>()
                        .cloned()
                        .or_else(|| e.downcast_ref::<&str>().map(|s| s.to_string()))
                        .unwrap_or_default();
                    f.add(d.op, format!("{case}: PANIC {msg}"));
                    panicked = true;
                    break;
                }
                check_outside(f, d.op, &case, "res", &before, &res.data, d.n_res * 8, res_cols, res_size, |c, _| {
                    c == res_col
                });
                outs.push(get_col(&res, res_col));
            }
            if panicked {
                continue;
            }
            if a.data != a_before {
                f.add(d.op, format!("{case}: STRAY WRITE read-only operand a modified"));
            }
            if b.data != b_before {
                f.add(d.op, format!("{case}: STRAY WRITE read-only operand b modified"));
            }
            if outs[0] != outs[1] {
                f.add(
                    d.op,
                    format!(
                        "{case}: STALE selected column depends on prior contents of res/scratch ({})",
                        first_diff(&outs[0], &outs[1])
                    ),
                );
                continue;
            }
            match &baseline {
                None => {
                    if let Some(chk) = d.check
                        && let Err(e) = chk(&preset, &a_lm, &b_lm, &outs[0])
                    {
                        f.add(d.op, format!("{case}: MODEL {e}"));
                    }
                    baseline = Some(outs[0].clone());
                }
                Some(bl) => {
                    if bl != &outs[0] {
                        f.add(
                            d.op,
                            format!(
                                "{case}: COLUMN result differs from the 1-column run ({})",
                                first_diff(&outs[0], bl)
                            ),
                        );
                    }
                }
            }
        }
    }
}

fn sizes3() -> Vec<(usize, usize, usize)> {
    let mut v = Vec::new();
    for r in 1..=3 {
        for a in 1..=4 {
            for b in 1..=3 {
                v.push((r, a, b));
            }
        }
    }
    v
}

fn sizes2() -> Vec<(usize, usize, usize)> {
    let mut v = Vec::new();
    for r in 1..=4 {
        for a in 1..=4 {
            v.push((r, a, 1));
        }
    }
    v
}

fn sizes1() -> Vec<(usize, usize, usize)> {
    (1..=4).map(|r| (r, 1, 1)).collect()
}

fn exact(want: Lm, have: &Lm) -> Result<(), String> {
    if &want == have { Ok(()) } else { Err(first_diff(have, &want)) }
}

fn elementwise2(n: usize, res_size: usize, a: &Lm, b: &Lm, g: impl Fn(i64, i64) -> i64) -> Lm {
    (0..res_size)
        .map(|j| {
            let (x, y) = (limb_or_zero(a, j, n), limb_or_zero(b, j, n));
            x.iter().zip(&y).map(|(u, v)| g(*u, *v)).collect()
        })
        .collect()
}

fn limbwise1(n: usize, res_size: usize, a: &Lm, g: impl Fn(&[i64]) -> Vec<i64>) -> Lm {
    (0..res_size).map(|j| g(&limb_or_zero(a, j, n))).collect()
}

#[test]
fn c11_vec_znx_elementwise() {
    let mut f = Fails::new();
    for n in ring_degrees() {
        let m = module(n);
            let tag = String::new();

        drive(
            &mut f,
            Drive {
                op: "vec_znx_add_into",
                tag: tag.clone(),
                n_res: n,
                n_a: n,
                sizes: sizes3(),
                inplace: false,
                a_extra: 1,
                bits: 40,
                run: &|res, rc, a, ac, b, bc, _| m.vec_znx_add_into(res, rc, a, ac, b, bc),
                check: Some(&|_, a, b, r| exact(elementwise2(n, r.len(), a, b, |x, y| x.wrapping_add(y)), r)),
            },
        );
        drive(
            &mut f,
            Drive {
                op: "vec_znx_sub",
                tag: tag.clone(),
                n_res: n,
                n_a: n,
                sizes: sizes3(),
                inplace: false,
                a_extra: 1,
                bits: 40,
                run: &|res, rc, a, ac, b, bc, _| m.vec_znx_sub(res, rc, a, ac, b, bc),
                check: Some(&|_, a, b, r| exact(elementwise2(n, r.len(), a, b, |x, y| x.wrapping_sub(y)), r)),
            },
        );
        drive(
            &mut f,
            Drive {
                op: "vec_znx_add_assign",
                tag: tag.clone(),
                n_res: n,
                n_a: n,
                sizes: sizes2(),
                inplace: true,
                a_extra: 1,
                bits: 40,
                run: &|res, rc, a, ac, _, _, _| m.vec_znx_add_assign(res, rc, a, ac),
                check: Some(&|p, a, _, r| exact(elementwise2(n, r.len(), p, a, |x, y| x.wrapping_add(y)), r)),
            },
        );
        drive(
            &mut f,
            Drive {
                op: "vec_znx_sub_assign",
                tag: tag.clone(),
                n_res: n,
                n_a: n,
                sizes: sizes2(),
                inplace: true,
                a_extra: 1,
                bits: 40,
                run: &|res, rc, a, ac, _, _, _| m.vec_znx_sub_assign(res, rc, a, ac),
                check: Some(&|p, a, _, r| exact(elementwise2(n, r.len(), p, a, |x, y| x.wrapping_sub(y)), r)),
            },
        );
        drive(
            &mut f,
            Drive {
                op: "vec_znx_sub_negate_assign",
                tag: tag.clone(),
                n_res: n,
                n_a: n,
                sizes: sizes2(),
                inplace: true,
                a_extra: 1,
                bits: 40,
                run: &|res, rc, a, ac, _, _, _| m.vec_znx_sub_negate_assign(res, rc, a, ac),
                check: Some(&|p, a, _, r| exact(elementwise2(n, r.len(), p, a, |x, y| y.wrapping_sub(x)), r)),
            },
        );
        drive(
            &mut f,
            Drive {
                op: "vec_znx_negate",
                tag: tag.clone(),
                n_res: n,
                n_a: n,
                sizes: sizes2(),
                inplace: false,
                a_extra: 1,
                bits: 40,
                run: &|res, rc, a, ac, _, _, _| m.vec_znx_negate(res, rc, a, ac),
                check: Some(&|_, a, _, r| exact(limbwise1(n, r.len(), a, |x| x.iter().map(|v| -v).collect()), r)),
            },
        );
        drive(
            &mut f,
            Drive {
                op: "vec_znx_negate_assign",
                tag: tag.clone(),
                n_res: n,
                n_a: n,
                sizes: sizes1(),
                inplace: true,
                a_extra: 1,
                bits: 40,
                run: &|res, rc, _, _, _, _, _| m.vec_znx_negate_assign(res, rc),
                check: Some(&|p, _, _, r| exact(limbwise1(n, r.len(), p, |x| x.iter().map(|v| -v).collect()), r)),
            },
        );
        drive(
            &mut f,
            Drive {
                op: "vec_znx_copy",
                tag: tag.clone(),
                n_res: n,
                n_a: n,
                sizes: sizes2(),
                inplace: false,
                a_extra: 1,
                bits: 40,
                run: &|res, rc, a, ac, _, _, _| m.vec_znx_copy(res, rc, a, ac),
                check: Some(&|_, a, _, r| exact(limbwise1(n, r.len(), a, |x| x.to_vec()), r)),
            },
        );
        drive(
            &mut f,
            Drive {
                op: "vec_znx_zero",
                tag: tag.clone(),
                n_res: n,
                n_a: n,
                sizes: sizes1(),
                inplace: false,
                a_extra: 1,
                bits: 40,
                run: &|res, rc, _, _, _, _, _| m.vec_znx_zero(res, rc),
                check: Some(&|_, _, _, r| exact(zero_lm(n, r.len()), r)),
            },
        );

        for p in [0i64, 1, -1, 3, n as i64 - 1, n as i64, n as i64 + 3, 2 * n as i64, -(2 * n as i64) - 5] {
            let tag = format!("p={p}");
            drive(
                &mut f,
                Drive {
                    op: "vec_znx_rotate",
                    tag: tag.clone(),
                    n_res: n,
                    n_a: n,
                    sizes: sizes2(),
                    inplace: false,
                    a_extra: 1,
                    bits: 40,
                    run: &|res, rc, a, ac, _, _, _| m.vec_znx_rotate(p, res, rc, a, ac),
                    check: Some(&|_, a, _, r| exact(limbwise1(n, r.len(), a, |x| model_rotate(p, x)), r)),
                },
            );
            drive(
                &mut f,
                Drive {
                    op: "vec_znx_rotate_assign",
                    tag: tag.clone(),
                    n_res: n,
                    n_a: n,
                    sizes: sizes1(),
                    inplace: true,
                    a_extra: 1,
                    bits: 40,
                    run: &|res, rc, _, _, _, _, rng| {
                        let mut s = scratch(m.vec_znx_rotate_assign_tmp_bytes(), rng);
                        m.vec_znx_rotate_assign(p, res, rc, s.borrow())
                    },
                    check: Some(&|pz, _, _, r| exact(limbwise1(n, r.len(), pz, |x| model_rotate(p, x)), r)),
                },
            );
            drive(
                &mut f,
                Drive {
                    op: "vec_znx_mul_xp_minus_one",
                    tag: tag.clone(),
                    n_res: n,
                    n_a: n,
                    sizes: sizes2(),
                    inplace: false,
                    a_extra: 1,
                    bits: 40,
                    run: &|res, rc, a, ac, _, _, _| m.vec_znx_mul_xp_minus_one(p, res, rc, a, ac),
                    check: Some(&|_, a, _, r| {
                        exact(
                            limbwise1(n, r.len(), a, |x| {
                                model_rotate(p, x).iter().zip(x).map(|(u, v)| u - v).collect()
                            }),
                            r,
                        )
                    }),
                },
            );
            drive(
                &mut f,
                Drive {
                    op: "vec_znx_mul_xp_minus_one_assign",
                    tag: tag.clone(),
                    n_res: n,
                    n_a: n,
                    sizes: sizes1(),
                    inplace: true,
                    a_extra: 1,
                    bits: 40,
                    run: &|res, rc, _, _, _, _, rng| {
                        let mut s = scratch(m.vec_znx_mul_xp_minus_one_assign_tmp_bytes(), rng);
                        m.vec_znx_mul_xp_minus_one_assign(p, res, rc, s.borrow())
                    },
                    check: Some(&|pz, _, _, r| {
                        exact(
                            limbwise1(n, r.len(), pz, |x| {
                                model_rotate(p, x).iter().zip(x).map(|(u, v)| u - v).collect()
                            }),
                            r,
                        )
                    }),
                },
            );
        }

        for p in [1i64, -1, 3, 5, -5, 2 * n as i64 - 1, 2 * n as i64 + 3] {
            let tag = format!("p={p}");
            drive(
                &mut f,
                Drive {
                    op: "vec_znx_automorphism",
                    tag: tag.clone(),
                    n_res: n,
                    n_a: n,
                    sizes: sizes2(),
                    inplace: false,
                    a_extra: 1,
                    bits: 40,
                    run: &|res, rc, a, ac, _, _, _| m.vec_znx_automorphism(p, res, rc, a, ac),
                    check: Some(&|_, a, _, r| exact(limbwise1(n, r.len(), a, |x| model_automorphism(p, x)), r)),
                },
            );
            drive(
                &mut f,
                Drive {
                    op: "vec_znx_automorphism_assign",
                    tag: tag.clone(),
                    n_res: n,
                    n_a: n,
                    sizes: sizes1(),
                    inplace: true,
                    a_extra: 1,
                    bits: 40,
                    run: &|res, rc, _, _, _, _, rng| {
                        let mut s = scratch(m.vec_znx_automorphism_assign_tmp_bytes(), rng);
                        m.vec_znx_automorphism_assign(p, res, rc, s.borrow())
                    },
                    check: Some(&|pz, _, _, r| exact(limbwise1(n, r.len(), pz, |x| model_automorphism(p, x)), r)),
                },
            );
        }

        // ring switching: a lives in a different ring
        for n_a in [n / 4, n / 2, n, 2 * n, 4 * n] {
            let tag = String::new();
            drive(
                &mut f,
                Drive {
                    op: "vec_znx_switch_ring",
                    tag: tag.clone(),
                    n_res: n,
                    n_a,
                    sizes: sizes2(),
                    inplace: false,
                    a_extra: 1,
                    bits: 40,
                    run: &|res, rc, a, ac, _, _, _| m.vec_znx_switch_ring(res, rc, a, ac),
                    check: Some(&|_, a, _, r| {
                        exact(
                            limbwise1(n_a, r.len(), a, |x| {
                                let mut o = vec![0i64; n];
                                if n_a >= n {
                                    let gap = n_a / n;
                                    for i in 0..n {
                                        o[i] = x[i * gap];
                                    }
                                } else {
                                    let gap = n / n_a;
                                    for i in 0..n_a {
                                        o[i * gap] = x[i];
                                    }
                                }
                                o
                            }),
                            r,
                        )
                    }),
                },
            );
        }

        // scalar forms: `a` is a ScalarZnx (size 1, no spare capacity), `b` the VecZnx operand
        for limb in 0..3usize {
            let tag = format!("limb={limb}");
            let sizes: Vec<(usize, usize, usize)> = sizes3()
                .into_iter()
                .filter(|&(r, a, b)| a == 1 && limb < r.min(b))
                .collect();
            drive(
                &mut f,
                Drive {
                    op: "vec_znx_add_scalar_into",
                    tag: tag.clone(),
                    n_res: n,
                    n_a: n,
                    sizes: sizes.clone(),
                    inplace: false,
                    a_extra: 0,
                    bits: 40,
                    run: &|res, rc, a, ac, b, bc, _| {
                        let s = ScalarZnx {
                            data: a.data.as_slice(),
                            n: a.n,
                            cols: a.cols,
                        };
                        m.vec_znx_add_scalar_into(res, rc, &s, ac, b, bc, limb)
                    },
                    check: Some(&|_, a, b, r| {
                        let mut w = limbwise1(n, r.len(), b, |x| x.to_vec());
                        for i in 0..n {
                            w[limb][i] += a[0][i];
                        }
                        exact(w, r)
                    }),
                },
            );
            drive(
                &mut f,
                Drive {
                    op: "vec_znx_sub_scalar",
                    tag: tag.clone(),
                    n_res: n,
                    n_a: n,
                    sizes: sizes.clone(),
                    inplace: false,
                    a_extra: 0,
                    bits: 40,
                    run: &|res, rc, a, ac, b, bc, _| {
                        let s = ScalarZnx {
                            data: a.data.as_slice(),
                            n: a.n,
                            cols: a.cols,
                        };
                        m.vec_znx_sub_scalar(res, rc, &s, ac, b, bc, limb)
                    },
                    check: Some(&|_, a, b, r| {
                        let mut w = limbwise1(n, r.len(), b, |x| x.to_vec());
                        for i in 0..n {
                            w[limb][i] -= a[0][i];
                        }
                        exact(w, r)
                    }),
                },
            );
            let sizes_ip: Vec<(usize, usize, usize)> = sizes1().into_iter().filter(|&(r, _, _)| limb < r).collect();
            drive(
                &mut f,
                Drive {
                    op: "vec_znx_add_scalar_assign",
                    tag: tag.clone(),
                    n_res: n,
                    n_a: n,
                    sizes: sizes_ip.clone(),
                    inplace: true,
                    a_extra: 0,
                    bits: 40,
                    run: &|res, rc, a, ac, _, _, _| {
                        let s = ScalarZnx {
                            data: a.data.as_slice(),
                            n: a.n,
                            cols: a.cols,
                        };
                        m.vec_znx_add_scalar_assign(res, rc, limb, &s, ac)
                    },
                    check: Some(&|p, a, _, r| {
                        let mut w = p.clone();
                        for i in 0..n {
                            w[limb][i] += a[0][i];
                        }
                        exact(w, r)
                    }),
                },
            );
            drive(
                &mut f,
                Drive {
                    op: "vec_znx_sub_scalar_assign",
                    tag: tag.clone(),
                    n_res: n,
                    n_a: n,
                    sizes: sizes_ip,
                    inplace: true,
                    a_extra: 0,
                    bits: 40,
                    run: &|res, rc, a, ac, _, _, _| {
                        let s = ScalarZnx {
                            data: a.data.as_slice(),
                            n: a.n,
                            cols: a.cols,
                        };
                        m.vec_znx_sub_scalar_assign(res, rc, limb, &s, ac)
                    },
                    check: Some(&|p, a, _, r| {
                        let mut w = p.clone();
                        for i in 0..n {
                            w[limb][i] -= a[0][i];
                        }
                        exact(w, r)
                    }),
                },
            );
        }
    }
    f.finish(&format!("c11_vec_znx_elementwise/{BACKEND}"));
}

// ---------------------------------------------------------------------------------------------
// shifts and normalisation
// ---------------------------------------------------------------------------------------------

const D: usize = 100; // fixed point used by the torus-value oracle

/// |centre(have - want mod 2^D)| <= tol for every coefficient
fn torus_close(n: usize, have: &Lm, k_have: usize, want: &dyn Fn(usize) -> i128, tol: i128) -> Result<(), String> {
    for i in 0..n {
        let h = torus_value(have, i, k_have, D);
        let w = want(i);
        let d = centre(h.wrapping_sub(w), D);
        if d.abs() > tol {
            return Err(format!("coeff {i}: torus value off by {d} (tolerance {tol})"));
        }
    }
    Ok(())
}

fn is_normalized(r: &Lm, k: usize) -> Result<(), String> {
    let h = 1i64 << (k - 1);
    for (j, l) in r.iter().enumerate() {
        for (i, x) in l.iter().enumerate() {
            if *x < -h || *x > h {
                return Err(format!("limb {j} coeff {i} = {x} is not a base-2^{k} digit"));
            }
        }
    }
    Ok(())
}

fn ulp(size: usize, k: usize) -> i128 {
    1i128 << (D - size * k)
}

#[test]
fn c11_vec_znx_shift() {
    let mut f = Fails::new();
    for n in ring_degrees() {
        let m = module(n);
        for k in [0usize, 1, 5, K - 1, K, K + 1, 2 * K, 2 * K + 7, 3 * K, 4 * K + 3, 6 * K] {
            let tag = format!("base2k={K} k={k}");
            // res = a * 2^k (mod 1), truncated to the precision of res
            drive(
                &mut f,
                Drive {
                    op: "vec_znx_lsh",
                    tag: tag.clone(),
                    n_res: n,
                    n_a: n,
                    sizes: sizes2(),
                    inplace: false,
                    a_extra: 1,
                    bits: K as u32,
                    run: &|res, rc, a, ac, _, _, rng| {
                        let mut s = scratch(m.vec_znx_lsh_tmp_bytes(), rng);
                        m.vec_znx_lsh(K, k, res, rc, a, ac, s.borrow())
                    },
                    check: Some(&|_, a, _, r| {
                        is_normalized(r, K)?;
                        torus_close(
                            n,
                            r,
                            K,
                            &|i| torus_value(a, i, K, D).wrapping_shl(k.min(127) as u32) * ((k < 128) as i128),
                            ulp(r.len(), K),
                        )
                    }),
                },
            );
            drive(
                &mut f,
                Drive {
                    op: "vec_znx_lsh_assign",
                    tag: tag.clone(),
                    n_res: n,
                    n_a: n,
                    sizes: sizes1(),
                    inplace: true,
                    a_extra: 1,
                    bits: K as u32,
                    run: &|res, rc, _, _, _, _, rng| {
                        let mut s = scratch(m.vec_znx_lsh_tmp_bytes(), rng);
                        m.vec_znx_lsh_assign(K, k, res, rc, s.borrow())
                    },
                    check: Some(&|p, _, _, r| {
                        is_normalized(r, K)?;
                        torus_close(
                            n,
                            r,
                            K,
                            &|i| torus_value(p, i, K, D).wrapping_shl(k.min(127) as u32) * ((k < 128) as i128),
                            ulp(r.len(), K),
                        )
                    }),
                },
            );
            // res = res + a * 2^k
            drive(
                &mut f,
                Drive {
                    op: "vec_znx_lsh_add_into",
                    tag: tag.clone(),
                    n_res: n,
                    n_a: n,
                    sizes: sizes2(),
                    inplace: true,
                    a_extra: 1,
                    bits: K as u32,
                    run: &|res, rc, a, ac, _, _, rng| {
                        let mut s = scratch(m.vec_znx_lsh_tmp_bytes(), rng);
                        m.vec_znx_lsh_add_into(K, k, res, rc, a, ac, s.borrow())
                    },
                    check: Some(&|p, a, _, r| {
                        torus_close(
                            n,
                            r,
                            K,
                            &|i| {
                                torus_value(p, i, K, D)
                                    .wrapping_add(torus_value(a, i, K, D).wrapping_shl(k.min(127) as u32) * ((k < 128) as i128))
                            },
                            ulp(r.len(), K),
                        )
                    }),
                },
            );
            drive(
                &mut f,
                Drive {
                    op: "vec_znx_lsh_sub",
                    tag: tag.clone(),
                    n_res: n,
                    n_a: n,
                    sizes: sizes2(),
                    inplace: true,
                    a_extra: 1,
                    bits: K as u32,
                    run: &|res, rc, a, ac, _, _, rng| {
                        let mut s = scratch(m.vec_znx_lsh_tmp_bytes(), rng);
                        m.vec_znx_lsh_sub(K, k, res, rc, a, ac, s.borrow())
                    },
                    check: Some(&|p, a, _, r| {
                        torus_close(
                            n,
                            r,
                            K,
                            &|i| {
                                torus_value(p, i, K, D)
                                    .wrapping_sub(torus_value(a, i, K, D).wrapping_shl(k.min(127) as u32) * ((k < 128) as i128))
                            },
                            ulp(r.len(), K),
                        )
                    }),
                },
            );

            // res = a / 2^k (a normalised, signed), truncated to the precision of res
            drive(
                &mut f,
                Drive {
                    op: "vec_znx_rsh",
                    tag: tag.clone(),
                    n_res: n,
                    n_a: n,
                    sizes: sizes2(),
                    inplace: false,
                    a_extra: 1,
                    bits: K as u32,
                    run: &|res, rc, a, ac, _, _, rng| {
                        let mut s = scratch(m.vec_znx_rsh_tmp_bytes(), rng);
                        m.vec_znx_rsh(K, k, res, rc, a, ac, s.borrow())
                    },
                    check: Some(&|_, a, _, r| {
                        is_normalized(r, K)?;
                        torus_close(n, r, K, &|i| torus_value(a, i, K, D) >> k.min(127), ulp(r.len(), K))
                    }),
                },
            );
            drive(
                &mut f,
                Drive {
                    op: "vec_znx_rsh_assign",
                    tag: tag.clone(),
                    n_res: n,
                    n_a: n,
                    sizes: sizes1(),
                    inplace: true,
                    a_extra: 1,
                    bits: K as u32,
                    run: &|res, rc, _, _, _, _, rng| {
                        let mut s = scratch(m.vec_znx_rsh_tmp_bytes(), rng);
                        m.vec_znx_rsh_assign(K, k, res, rc, s.borrow())
                    },
                    check: Some(&|p, _, _, r| {
                        is_normalized(r, K)?;
                        torus_close(n, r, K, &|i| torus_value(p, i, K, D) >> k.min(127), ulp(r.len(), K))
                    }),
                },
            );
            drive(
                &mut f,
                Drive {
                    op: "vec_znx_rsh_add_into",
                    tag: tag.clone(),
                    n_res: n,
                    n_a: n,
                    sizes: sizes2(),
                    inplace: true,
                    a_extra: 1,
                    bits: K as u32,
                    run: &|res, rc, a, ac, _, _, rng| {
                        let mut s = scratch(m.vec_znx_rsh_tmp_bytes(), rng);
                        m.vec_znx_rsh_add_into(K, k, res, rc, a, ac, s.borrow())
                    },
                    check: Some(&|p, a, _, r| {
                        torus_close(
                            n,
                            r,
                            K,
                            &|i| torus_value(p, i, K, D).wrapping_add(torus_value(a, i, K, D) >> k.min(127)),
                            ulp(r.len(), K),
                        )
                    }),
                },
            );
            drive(
                &mut f,
                Drive {
                    op: "vec_znx_rsh_sub",
                    tag: tag.clone(),
                    n_res: n,
                    n_a: n,
                    sizes: sizes2(),
                    inplace: true,
                    a_extra: 1,
                    bits: K as u32,
                    run: &|res, rc, a, ac, _, _, rng| {
                        let mut s = scratch(m.vec_znx_rsh_tmp_bytes(), rng);
                        m.vec_znx_rsh_sub(K, k, res, rc, a, ac, s.borrow())
                    },
                    check: Some(&|p, a, _, r| {
                        torus_close(
                            n,
                            r,
                            K,
                            &|i| torus_value(p, i, K, D).wrapping_sub(torus_value(a, i, K, D) >> k.min(127)),
                            ulp(r.len(), K),
                        )
                    }),
                },
            );
        }
    }
    f.finish(&format!("c11_vec_znx_shift/{BACKEND}"));
}

#[test]
fn c11_vec_znx_normalize() {
    let mut f = Fails::new();
    for n in ring_degrees() {
        let m = module(n);
        // same base: all offsets from "far below" to "far above"
        for off in [-5 * K as i64, -2 * K as i64 - 3, -(K as i64), -5, -1, 0, 1, 7, K as i64, K as i64 + 5, 3 * K as i64, 5 * K as i64] {
            for bits in [K as u32, K as u32 + 6] {
                let tag = format!("base2k={K} res_offset={off} input_bits={bits}");
                drive(
                    &mut f,
                    Drive {
                        op: "vec_znx_normalize(same base2k)",
                        tag: tag.clone(),
                        n_res: n,
                        n_a: n,
                        sizes: sizes2(),
                        inplace: false,
                        a_extra: 1,
                        bits,
                        run: &|res, rc, a, ac, _, _, rng| {
                            let mut s = scratch(m.vec_znx_normalize_tmp_bytes(), rng);
                            m.vec_znx_normalize(res, K, off, rc, a, K, ac, s.borrow())
                        },
                        check: Some(&|_, _, _, r| is_normalized(r, K)),
                    },
                );
            }
        }
        // cross base
        for (rk, ak) in [(K, 7usize), (7, K), (K, K + 1), (5, 17), (17, 5), (13, 13)] {
            for off in [-(2 * ak as i64) - 1, -(ak as i64), -3, 0, 2, ak as i64, 2 * ak as i64 + 3, 6 * ak as i64] {
                let tag = format!("res_base2k={rk} a_base2k={ak} res_offset={off}");
                drive(
                    &mut f,
                    Drive {
                        op: "vec_znx_normalize(cross base2k)",
                        tag: tag.clone(),
                        n_res: n,
                        n_a: n,
                        sizes: sizes2(),
                        inplace: false,
                        a_extra: 1,
                        bits: ak as u32 + 3,
                        run: &|res, rc, a, ac, _, _, rng| {
                            let mut s = scratch(m.vec_znx_normalize_tmp_bytes(), rng);
                            m.vec_znx_normalize(res, rk, off, rc, a, ak, ac, s.borrow())
                        },
                        // (digits are not checked here: with a negative res_offset the cross-base path returns
                        //  digits slightly outside [-2^(k-1), 2^(k-1)], which is a range matter, not a C11 one)
                        check: None,
                    },
                );
            }
        }
        for bits in [K as u32, K as u32 + 6, 40] {
            let tag = format!("base2k={K} input_bits={bits}");
            drive(
                &mut f,
                Drive {
                    op: "vec_znx_normalize_assign",
                    tag: tag.clone(),
                    n_res: n,
                    n_a: n,
                    sizes: sizes1(),
                    inplace: true,
                    a_extra: 1,
                    bits,
                    run: &|res, rc, _, _, _, _, rng| {
                        let mut s = scratch(m.vec_znx_normalize_tmp_bytes(), rng);
                        m.vec_znx_normalize_assign(K, res, rc, s.borrow())
                    },
                    check: Some(&|p, _, _, r| {
                        is_normalized(r, K)?;
                        torus_close(n, r, K, &|i| torus_value(p, i, K, D), 0)
                    }),
                },
            );
        }
    }
    f.finish(&format!("c11_vec_znx_normalize/{BACKEND}"));
}

// ---------------------------------------------------------------------------------------------
// sampling: with identical `Source` seeds the result must not depend on the prior contents
// ---------------------------------------------------------------------------------------------

#[test]
fn c11_vec_znx_sampling() {
    let mut f = Fails::new();
    for n in ring_degrees() {
        let m = module(n);
            let tag = String::new();
        drive(
            &mut f,
            Drive {
                op: "vec_znx_fill_uniform",
                tag: tag.clone(),
                n_res: n,
                n_a: n,
                sizes: sizes1(),
                inplace: false,
                a_extra: 1,
                bits: 40,
                run: &|res, rc, _, _, _, _, _| {
                    let mut src = Source::new([7u8; 32]);
                    m.vec_znx_fill_uniform(K, res, rc, &mut src)
                },
                check: Some(&|_, _, _, r| is_normalized(r, K)),
            },
        );
        for kk in [K - 3, K, K + 1, 2 * K, 3 * K - 1] {
            let tag = format!("base2k={K} noise_k={kk}");
            let sizes: Vec<(usize, usize, usize)> = sizes1().into_iter().filter(|&(r, _, _)| r * K >= kk).collect();
            drive(
                &mut f,
                Drive {
                    op: "vec_znx_fill_normal",
                    tag: tag.clone(),
                    n_res: n,
                    n_a: n,
                    sizes: sizes.clone(),
                    inplace: false,
                    a_extra: 1,
                    bits: 40,
                    run: &|res, rc, _, _, _, _, _| {
                        let mut src = Source::new([9u8; 32]);
                        m.vec_znx_fill_normal(K, res, rc, NoiseInfos::new(kk, 3.2, 19.2).unwrap(), &mut src)
                    },
                    check: None,
                },
            );
            drive(
                &mut f,
                Drive {
                    op: "vec_znx_add_normal",
                    tag: tag.clone(),
                    n_res: n,
                    n_a: n,
                    sizes,
                    inplace: true,
                    a_extra: 1,
                    bits: K as u32,
                    run: &|res, rc, _, _, _, _, _| {
                        let mut src = Source::new([9u8; 32]);
                        m.vec_znx_add_normal(K, res, rc, NoiseInfos::new(kk, 3.2, 19.2).unwrap(), &mut src)
                    },
                    check: None,
                },
            );
        }
    }
    f.finish(&format!("c11_vec_znx_sampling/{BACKEND}"));
}

// ---------------------------------------------------------------------------------------------
// split_ring / merge_rings
// ---------------------------------------------------------------------------------------------

#[test]
fn c11_vec_znx_split_merge() {
    let mut f = Fails::new();
    let mut rng = Rng::new(0x5911);
    for n in ring_degrees() {
        let m = module(n);
        for parts in [2usize, 4] {
            let n_small = n / parts;
            for res_size in 1..=3usize {
                for a_size in 1..=3usize {
                    for (cols, col, a_cols, a_col) in [(1usize, 0usize, 1usize, 0usize), (2, 1, 3, 2), (3, 0, 2, 1), (3, 2, 1, 0)] {
                        f.cases += 1;
                        let case = format!(
                            "[{BACKEND} n={n} parts={parts} res(cols={cols},col={col},size={res_size}) a(cols={a_cols},col={a_col},size={a_size})]"
                        );
                        // ---- split: big (n) -> parts x small
                        let a_lm = rand_lm(&mut rng, n, a_size, 40);
                        let mut a = new_vz(n, a_cols, a_size, 1);
                        rng.fill_bytes(&mut a.data);
                        set_col(&mut a, a_col, &a_lm);
                        let a_before = a.data.clone();
                        let mut outs: Vec<Vec<Lm>> = Vec::new();
                        for _ in 0..2 {
                            let mut res: Vec<VecZnx<Vec<u8>>> = (0..parts)
                                .map(|_| {
                                    let mut r = new_vz(n_small, cols, res_size, 1);
                                    rng.fill_bytes(&mut r.data);
                                    r
                                })
                                .collect();
                            let before: Vec<Vec<u8>> = res.iter().map(|r| r.data.clone()).collect();
                            let mut s = scratch(m.vec_znx_split_ring_tmp_bytes(), &mut rng);
                            m.vec_znx_split_ring(&mut res, col, &a, a_col, s.borrow());
                            for (i, r) in res.iter().enumerate() {
                                check_outside(
                                    &mut f,
                                    "vec_znx_split_ring",
                                    &case,
                                    &format!("res[{i}]"),
                                    &before[i],
                                    &r.data,
                                    n_small * 8,
                                    cols,
                                    res_size,
                                    |c, _| c == col,
                                );
                            }
                            outs.push(res.iter().map(|r| get_col(r, col)).collect());
                        }
                        if a.data != a_before {
                            f.add("vec_znx_split_ring", format!("{case}: STRAY WRITE a modified"));
                        }
                        if outs[0] != outs[1] {
                            f.add("vec_znx_split_ring", format!("{case}: STALE output depends on prior contents"));
                        }
                        // model: res[i][j][t] = a[j][t*parts + i]
                        for (i, ri) in outs[0].iter().enumerate() {
                            for j in 0..res_size {
                                let want: Vec<i64> = (0..n_small)
                                    .map(|t| if j < a_size { a_lm[j][t * parts + i] } else { 0 })
                                    .collect();
                                if ri[j] != want {
                                    f.add(
                                        "vec_znx_split_ring",
                                        format!("{case}: MODEL part {i} limb {j}: have {:?} want {:?}", ri[j], want),
                                    );
                                }
                            }
                        }

                        // ---- merge: parts x small -> big (n)
                        let parts_lm: Vec<Lm> = (0..parts).map(|_| rand_lm(&mut rng, n_small, a_size, 40)).collect();
                        let ins: Vec<VecZnx<Vec<u8>>> = parts_lm
                            .iter()
                            .map(|l| {
                                let mut v = new_vz(n_small, a_cols, a_size, 1);
                                rng.fill_bytes(&mut v.data);
                                set_col(&mut v, a_col, l);
                                v
                            })
                            .collect();
                        let ins_before: Vec<Vec<u8>> = ins.iter().map(|r| r.data.clone()).collect();
                        let mut mouts: Vec<Lm> = Vec::new();
                        for _ in 0..2 {
                            let mut res = new_vz(n, cols, res_size, 1);
                            rng.fill_bytes(&mut res.data);
                            let before = res.data.clone();
                            let mut s = scratch(m.vec_znx_merge_rings_tmp_bytes(), &mut rng);
                            m.vec_znx_merge_rings(&mut res, col, &ins, a_col, s.borrow());
                            check_outside(
                                &mut f,
                                "vec_znx_merge_rings",
                                &case,
                                "res",
                                &before,
                                &res.data,
                                n * 8,
                                cols,
                                res_size,
                                |c, _| c == col,
                            );
                            mouts.push(get_col(&res, col));
                        }
                        for (i, v) in ins.iter().enumerate() {
                            if v.data != ins_before[i] {
                                f.add("vec_znx_merge_rings", format!("{case}: STRAY WRITE a[{i}] modified"));
                            }
                        }
                        if mouts[0] != mouts[1] {
                            f.add("vec_znx_merge_rings", format!("{case}: STALE output depends on prior contents"));
                        }
                        for j in 0..res_size {
                            let want: Vec<i64> = (0..n)
                                .map(|t| if j < a_size { parts_lm[t % parts][j][t / parts] } else { 0 })
                                .collect();
                            if mouts[0][j] != want {
                                f.add(
                                    "vec_znx_merge_rings",
                                    format!("{case}: MODEL limb {j}: have {:?} want {:?}", mouts[0][j], want),
                                );
                            }
                        }
                    }
                }
            }
        }
    }
    f.finish(&format!("c11_vec_znx_split_merge/{BACKEND}"));
}
