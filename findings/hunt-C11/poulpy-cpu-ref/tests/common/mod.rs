//! Shared helpers for the C11 ("outputs are fully determined by inputs: no stale data,
//! no stray writes") integration tests.
#![allow(dead_code)]

use std::collections::BTreeMap;

/// Tiny deterministic generator (splitmix64) - independent from the library's `Source`.
pub struct Rng(pub u64);

impl Rng {
    pub fn new(seed: u64) -> Self {
        Rng(seed.wrapping_mul(0x9E37_79B9_7F4A_7C15) ^ 0xD1B5_4A32_D192_ED03)
    }
    pub fn next(&mut self) -> u64 {
        self.0 = self.0.wrapping_add(0x9E37_79B9_7F4A_7C15);
        let mut z = self.0;
        z = (z ^ (z >> 30)).wrapping_mul(0xBF58_476D_1CE4_E5B9);
        z = (z ^ (z >> 27)).wrapping_mul(0x94D0_49BB_1331_11EB);
        z ^ (z >> 31)
    }
    /// Uniform signed value in [-2^(bits-1), 2^(bits-1)).
    pub fn small(&mut self, bits: u32) -> i64 {
        let r = self.next();
        ((r << (64 - bits)) as i64) >> (64 - bits)
    }
    pub fn below(&mut self, m: u64) -> u64 {
        self.next() % m
    }
    pub fn fill_bytes(&mut self, b: &mut [u8]) {
        for chunk in b.chunks_mut(8) {
            let r = self.next().to_le_bytes();
            chunk.copy_from_slice(&r[..chunk.len()]);
        }
    }
}

/// Library panics are caught (`catch_unwind`) and reported as violations; keep the default hook quiet.
pub fn quiet_panics() {
    static ONCE: std::sync::Once = std::sync::Once::new();
    ONCE.call_once(|| {
        std::panic::set_hook(Box::new(|info| {
            if std::env::var("C11_VERBOSE").is_ok() {
                eprintln!("panic: {info}\n{}", std::backtrace::Backtrace::force_capture());
            }
        }))
    });
}

/// Failure collector: groups by operation, keeps a few examples of each.
pub struct Fails {
    map: BTreeMap<String, (usize, Vec<String>)>,
    pub cases: usize,
}

impl Default for Fails {
    fn default() -> Self {
        Self::new()
    }
}

impl Fails {
    pub fn new() -> Self {
        quiet_panics();
        Fails {
            map: BTreeMap::new(),
            cases: 0,
        }
    }
    pub fn add(&mut self, op: &str, msg: String) {
        let e = self.map.entry(op.to_string()).or_insert((0, Vec::new()));
        e.0 += 1;
        let cap: usize = std::env::var("C11_EXAMPLES").ok().and_then(|v| v.parse().ok()).unwrap_or(6);
        if e.1.len() < cap {
            e.1.push(msg);
        }
    }
    pub fn total(&self) -> usize {
        self.map.values().map(|e| e.0).sum()
    }
    pub fn report(&self) -> String {
        let mut s = String::new();
        for (op, (cnt, ex)) in &self.map {
            s.push_str(&format!("\n== {op}: {cnt} violation(s)\n"));
            for e in ex {
                s.push_str(&format!("   - {e}\n"));
            }
        }
        s
    }
    pub fn finish(self, name: &str) {
        if self.total() > 0 {
            eprintln!(
                "[{name}] {} violation(s) over {} cases:{}",
                self.total(),
                self.cases,
                self.report()
            );
            panic!(
                "[{name}] {} violation(s) over {} cases:{}",
                self.total(),
                self.cases,
                self.report()
            );
        } else {
            eprintln!("[{name}] ok: {} cases", self.cases);
        }
    }
}

/// Everything outside the polys for which `may_change(col, limb)` holds must be byte-identical,
/// including the spare capacity past `cols * size` polys.
#[allow(clippy::too_many_arguments)]
pub fn check_outside(
    f: &mut Fails,
    op: &str,
    case: &str,
    what: &str,
    before: &[u8],
    after: &[u8],
    poly_bytes: usize,
    cols: usize,
    size: usize,
    may_change: impl Fn(usize, usize) -> bool,
) {
    assert_eq!(before.len(), after.len());
    let active = cols * size;
    assert!(active * poly_bytes <= before.len());
    for p in 0..active {
        let (j, c) = (p / cols, p % cols);
        if may_change(c, j) {
            continue;
        }
        if before[p * poly_bytes..(p + 1) * poly_bytes] != after[p * poly_bytes..(p + 1) * poly_bytes] {
            f.add(op, format!("{case}: STRAY WRITE {what} col {c} limb {j} modified"));
        }
    }
    if before[active * poly_bytes..] != after[active * poly_bytes..] {
        f.add(op, format!("{case}: STRAY WRITE {what} capacity past the active size modified"));
    }
}

/// Concatenated bytes of all active limbs of column `col`.
pub fn col_bytes(data: &[u8], poly_bytes: usize, cols: usize, size: usize, col: usize) -> Vec<u8> {
    let mut v = Vec::with_capacity(size * poly_bytes);
    for j in 0..size {
        let p = j * cols + col;
        v.extend_from_slice(&data[p * poly_bytes..(p + 1) * poly_bytes]);
    }
    v
}

pub type Lm = Vec<Vec<i64>>;
pub type Lm128 = Vec<Vec<i128>>;

pub fn zero_lm(n: usize, size: usize) -> Lm {
    vec![vec![0i64; n]; size]
}

pub fn limb_or_zero(a: &Lm, j: usize, n: usize) -> Vec<i64> {
    if j < a.len() { a[j].clone() } else { vec![0i64; n] }
}

pub fn limb_or_zero128(a: &Lm128, j: usize, n: usize) -> Vec<i128> {
    if j < a.len() { a[j].clone() } else { vec![0i128; n] }
}

pub fn to128(a: &Lm) -> Lm128 {
    a.iter().map(|l| l.iter().map(|x| *x as i128).collect()).collect()
}

/// a * X^p in Z[X]/(X^n+1)
pub fn model_rotate<T: Copy + Default + std::ops::Neg<Output = T>>(p: i64, a: &[T]) -> Vec<T> {
    let n = a.len() as i64;
    let mut r = vec![T::default(); a.len()];
    for (i, x) in a.iter().enumerate() {
        let k = (i as i64 + p).rem_euclid(2 * n);
        if k < n {
            r[k as usize] = *x;
        } else {
            r[(k - n) as usize] = -*x;
        }
    }
    r
}

/// X^i -> X^(i*p) in Z[X]/(X^n+1), p odd
pub fn model_automorphism<T: Copy + Default + std::ops::Neg<Output = T>>(p: i64, a: &[T]) -> Vec<T> {
    let n = a.len() as i64;
    let mut r = vec![T::default(); a.len()];
    for (i, x) in a.iter().enumerate() {
        let k = (i as i64 * p).rem_euclid(2 * n);
        if k < n {
            r[k as usize] = *x;
        } else {
            r[(k - n) as usize] = -*x;
        }
    }
    r
}

/// negacyclic product over i128
pub fn model_negacyclic(a: &[i128], b: &[i128]) -> Vec<i128> {
    let n = a.len();
    let mut r = vec![0i128; n];
    for i in 0..n {
        for j in 0..n {
            let p = a[i] * b[j];
            if i + j < n {
                r[i + j] += p;
            } else {
                r[i + j - n] -= p;
            }
        }
    }
    r
}

pub fn add128(a: &mut [i128], b: &[i128]) {
    for (x, y) in a.iter_mut().zip(b) {
        *x += *y;
    }
}

/// Torus value of one coefficient: sum_j a[j][i] * 2^(d - (j+1)*k) (exact, signed; caller ensures no overflow)
pub fn torus_value(a: &Lm, i: usize, k: usize, d: usize) -> i128 {
    let mut v: i128 = 0;
    for (j, l) in a.iter().enumerate() {
        let sh = d as i64 - ((j + 1) * k) as i64;
        assert!(sh >= 0, "torus_value: not enough precision");
        v = v.wrapping_add((l[i] as i128).wrapping_shl(sh as u32));
    }
    v
}

/// centred reduction mod 2^d
pub fn centre(v: i128, d: usize) -> i128 {
    let m: i128 = 1i128 << d;
    let mut r = v.rem_euclid(m);
    if r >= m / 2 {
        r -= m;
    }
    r
}

pub fn first_diff<T: PartialEq + std::fmt::Debug>(a: &[Vec<T>], b: &[Vec<T>]) -> String {
    if a.len() != b.len() {
        return format!("limb count {} vs {}", a.len(), b.len());
    }
    for (j, (x, y)) in a.iter().zip(b).enumerate() {
        if x != y {
            for (i, (u, v)) in x.iter().zip(y).enumerate() {
                if u != v {
                    return format!("limb {j} coeff {i}: have {u:?} want {v:?}");
                }
            }
        }
    }
    "equal".into()
}

/// Ring degrees exercised by the suites (override with C11_N=4,8,...).
pub fn ring_degrees() -> Vec<usize> {
    match std::env::var("C11_N") {
        Ok(v) => v.split(',').map(|x| x.trim().parse().unwrap()).collect(),
        Err(_) => vec![8, 16],
    }
}
