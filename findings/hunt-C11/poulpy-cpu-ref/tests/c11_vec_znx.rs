//! C11 - outputs are fully determined by inputs (no stale data, no stray writes):
//! coefficient-domain `VecZnx` HAL operations on both reference backends.
//!
//! Run: cargo test --offline -p poulpy-cpu-ref --test c11_vec_znx -- --test-threads 4
mod common;

mod fft64 {
    type BE = poulpy_cpu_ref::FFT64Ref;
    const BACKEND: &str = "fft64";
    include!("suite/vec_znx_body.rs");
}

mod ntt120 {
    type BE = poulpy_cpu_ref::NTT120Ref;
    const BACKEND: &str = "ntt120";
    include!("suite/vec_znx_body.rs");
}
