//! C08 demonstration (seed 2): integer encoding / decoding of `VecZnx` against an exact model.
//!
//! A column of a `VecZnx` (radix 2^b, `size` limbs) represents, coefficient-wise, the torus element
//!     val = sum_j limb[j] * 2^{-(j+1) b}   (mod 1),
//! evaluated here exactly as an i128 numerator over 2^(size * b) (size * b <= 120).
//! Encoding the integer v at precision k must give val = v * 2^{-k} (mod 1) exactly whenever the balanced
//! expansion of v fits (in particular for -2^(k-1) <= v < 2^(k-1)), whatever the destination held before,
//! must leave the other columns (and, for the single-coefficient form, the other coefficients) untouched,
//! must produce balanced digits, and decoding at the same precision must return v modulo 2^k (v itself when
//! |v| < 2^(k-2)).

use poulpy_hal::layouts::{VecZnx, ZnxInfos, ZnxView, ZnxViewMut};

struct Rng(u64);

impl Rng {
    fn next(&mut self) -> u64 {
        // splitmix64
        self.0 = self.0.wrapping_add(0x9E37_79B9_7F4A_7C15);
        let mut z = self.0;
        z = (z ^ (z >> 30)).wrapping_mul(0xBF58_476D_1CE4_E5B9);
        z = (z ^ (z >> 27)).wrapping_mul(0x94D0_49BB_1331_11EB);
        z ^ (z >> 31)
    }

    /// Uniform in [-2^(bits-1), 2^(bits-1)), 1 <= bits <= 64
    fn signed(&mut self, bits: usize) -> i64 {
        ((self.next() << (64 - bits)) as i64) >> (64 - bits)
    }
}

/// Exact numerator of val(column `col`, coefficient `i`) over 2^(size * b), reduced modulo 2^(size * b)
/// to the centered representative.
fn numerator(v: &VecZnx<Vec<u8>>, b: usize, col: usize, i: usize) -> i128 {
    let size: usize = v.size();
    let d: usize = size * b;
    assert!(d <= 120);
    let mut acc: i128 = 0;
    for j in 0..size {
        // |limb| < 2^63 and the weight is at most 2^(d - b): reduce as we go to stay inside i128.
        let w: i128 = 1i128 << (d - (j + 1) * b);
        acc = center(acc.wrapping_add((v.at(col, j)[i] as i128).wrapping_mul(w)), d);
    }
    acc
}

/// Centered representative of x modulo 2^d (d <= 126), valid for wrapped x as 2^d divides 2^128.
fn center(x: i128, d: usize) -> i128 {
    let m: i128 = 1i128 << d;
    let r: i128 = x & (m - 1);
    if r >= m >> 1 { r - m } else { r }
}

/// Decoding returns v modulo 2^k, and v itself whenever |v| < 2^(k-2).
fn decode_ok(got: i128, v: i128, k: usize) -> bool {
    let same_class: bool = k >= 127 || (got.wrapping_sub(v)) & ((1i128 << k) - 1) == 0;
    let small: bool = k >= 3 && k <= 126 && v.abs() < (1i128 << (k - 2));
    same_class && (!small || got == v)
}

fn fill_dirty(v: &mut VecZnx<Vec<u8>>, b: usize, rng: &mut Rng) {
    for col in 0..v.cols() {
        for j in 0..v.size() {
            v.at_mut(col, j).iter_mut().for_each(|x| *x = rng.signed(b));
        }
    }
}

fn test_values(k: usize, n: usize, rng: &mut Rng) -> Vec<i64> {
    let kk: usize = k.min(63);
    let mut vals: Vec<i64> = (0..n).map(|_| rng.signed(kk)).collect();
    // boundaries of the balanced range and small values
    vals[0] = -(1i64 << (kk - 1));
    vals[1] = (1i64 << (kk - 1)) - 1;
    vals[2] = 0;
    vals[3] = -1;
    vals[4] = 1.min((1i64 << (kk - 1)) - 1);
    vals
}

fn check_column(
    what: &str,
    a: &VecZnx<Vec<u8>>,
    before: &VecZnx<Vec<u8>>,
    b: usize,
    k: usize,
    col: usize,
    want: &[i128],
    only_idx: Option<usize>,
    failures: &mut Vec<String>,
) {
    let size: usize = a.size();
    let d: usize = size * b;

    // Other columns untouched
    for c in 0..a.cols() {
        if c != col {
            for j in 0..size {
                assert_eq!(a.at(c, j), before.at(c, j), "{what}: column {c} modified (b={b} k={k})");
            }
        }
    }

    for i in 0..a.n() {
        if let Some(idx) = only_idx {
            if i != idx {
                for j in 0..size {
                    assert_eq!(
                        a.at(col, j)[i],
                        before.at(col, j)[i],
                        "{what}: coefficient {i} modified while encoding coefficient {idx} (b={b} k={k})"
                    );
                }
                continue;
            }
        }

        // val = v * 2^-k (mod 1), i.e. numerator = v * 2^(d - k) modulo 2^d
        let v: i128 = want[if only_idx.is_some() { 0 } else { i }];
        let expect: i128 = center(v.wrapping_mul(1i128 << (d - k)), d);
        let have: i128 = numerator(a, b, col, i);
        if have != expect && failures.len() < 12 {
            let limbs: Vec<i64> = (0..size).map(|j| a.at(col, j)[i]).collect();
            failures.push(format!(
                "{what}: b={b} k={k} size={size} coeff={i} v={v}: limbs {limbs:?} represent {have} / 2^{d}, expected {expect} / 2^{d}"
            ));
        }

        // Balanced digits
        for j in 0..size {
            let x: i64 = a.at(col, j)[i];
            assert!(
                (-(1i64 << (b - 1))..(1i64 << (b - 1))).contains(&x),
                "{what}: digit out of range b={b} k={k} limb={j} x={x}"
            );
        }
    }
}

#[test]
fn encode_decode_matches_exact_model() {
    let n: usize = 16;
    let cols: usize = 3;
    let col: usize = 1;
    let mut rng = Rng(0xC08_2);
    let mut failures: Vec<String> = Vec::new();
    let mut cases: usize = 0;

    for (b, size) in [(2usize, 4usize), (3, 4), (5, 5), (12, 5), (17, 4), (30, 4), (52, 2), (62, 1)] {
        for k in 1..=(size * b) {
            // Two rounds on the same buffer: first on top of arbitrary data, then on top of the previous encoding.
            let mut a: VecZnx<Vec<u8>> = VecZnx::alloc(n, cols, size);
            fill_dirty(&mut a, b, &mut rng);

            for _round in 0..2 {
                // ---- encode_vec_i64 / decode_vec_i64
                let vals: Vec<i64> = test_values(k, n, &mut rng);
                let before = a.clone();
                a.encode_vec_i64(b, col, k, &vals);
                let want: Vec<i128> = vals.iter().map(|x| *x as i128).collect();
                check_column("encode_vec_i64", &a, &before, b, k, col, &want, None, &mut failures);
                if k <= 63 {
                    let mut back: Vec<i64> = vec![0i64; n];
                    a.decode_vec_i64(b, col, k, &mut back);
                    let ok: bool = back.iter().zip(vals.iter()).all(|(g, v)| decode_ok(*g as i128, *v as i128, k));
                    if !ok && failures.len() < 12 {
                        failures.push(format!("decode_vec_i64(encode_vec_i64(v)) != v (mod 2^k): b={b} k={k} v={vals:?} got={back:?}"));
                    }
                }
                cases += 1;

                // ---- encode_vec_i128 / decode_vec_i128
                let kk: usize = k.min(120);
                let vals128: Vec<i128> = (0..n)
                    .map(|i| {
                        let hi: i128 = rng.signed(64) as i128;
                        let lo: i128 = rng.next() as i128;
                        let x: i128 = (hi << 64) | lo;
                        match i {
                            0 => -(1i128 << (kk - 1)),
                            1 => (1i128 << (kk - 1)) - 1,
                            _ => (x << (128 - kk)) >> (128 - kk),
                        }
                    })
                    .collect();
                let before = a.clone();
                a.encode_vec_i128(b, col, k, &vals128);
                check_column("encode_vec_i128", &a, &before, b, k, col, &vals128, None, &mut failures);
                let mut back128: Vec<i128> = vec![0i128; n];
                a.decode_vec_i128(b, col, k, &mut back128);
                let ok: bool = back128.iter().zip(vals128.iter()).all(|(g, v)| decode_ok(*g, *v, k));
                if !ok && failures.len() < 12 {
                    failures.push(format!("decode_vec_i128(encode_vec_i128(v)) != v (mod 2^k): b={b} k={k}"));
                }
                cases += 1;

                // ---- encode_coeff_i64 / decode_coeff_i64 at every index
                for idx in 0..n {
                    let v: i64 = test_values(k, n, &mut rng)[idx % 8];
                    let before = a.clone();
                    a.encode_coeff_i64(b, col, k, idx, v);
                    check_column("encode_coeff_i64", &a, &before, b, k, col, &[v as i128], Some(idx), &mut failures);
                    if k <= 63 {
                        let back: i64 = a.decode_coeff_i64(b, col, k, idx);
                        if !decode_ok(back as i128, v as i128, k) && failures.len() < 12 {
                            failures.push(format!("decode_coeff_i64(encode_coeff_i64(v)) != v (mod 2^k): b={b} k={k} idx={idx} v={v} got={back}"));
                        }
                    }
                }
                cases += 1;

                // Leaves the column in the state produced by a vector encoding for the next round.
                let vals: Vec<i64> = test_values(k, n, &mut rng);
                a.encode_vec_i64(b, col, k, &vals);
            }
        }
    }

    println!("{cases} encode/decode cases checked, {} failures recorded", failures.len());
    assert!(
        failures.is_empty(),
        "integer encoding disagrees with the exact model:\n{}",
        failures.join("\n")
    );
}
