//! C14: blind rotation evaluates the lookup table at the encrypted index.
//!
//! Independent oracle: an integer model of the (drifted, replicated) table in the
//! big ring Z[Y]/(Y^D+1), D = N*ext, rotated negacyclically by the index
//! `b' + <a', s>` where `(b', a')` is the mod-switched LWE sample.
#![allow(clippy::too_many_arguments)]

use poulpy_bin_fhe::blind_rotation::{
    BlindRotationExecute, BlindRotationKey, BlindRotationKeyEncryptSk, BlindRotationKeyLayout, BlindRotationKeyPrepared,
    BlindRotationKeyPreparedFactory, CGGI, LookUpTableLayout, LookUpTableRotationDirection, LookupTable, LookupTableFactory,
    mod_switch_2n,
};
use poulpy_core::{
    EncryptionLayout, GLWEDecrypt, LWEEncryptSk, ScratchTakeCore,
    layouts::{
        GLWE, GLWELayout, GLWEPlaintext, GLWESecret, GLWESecretPreparedFactory, LWE, LWEInfos, LWELayout, LWEPlaintext,
        LWESecret, LWEToRef, prepared::GLWESecretPrepared,
    },
};
use poulpy_cpu_ref::{FFT64Ref, NTT120Ref};
use poulpy_hal::{
    api::{ModuleN, ModuleNew, ScratchOwnedAlloc, ScratchOwnedBorrow},
    layouts::{Backend, DeviceBuf, Module, Scratch, ScratchOwned, ZnxInfos, ZnxView, ZnxViewMut},
    source::Source,
};

pub trait BrModule<BE: Backend>:
    ModuleN
    + BlindRotationKeyEncryptSk<CGGI, BE>
    + BlindRotationKeyPreparedFactory<CGGI, BE>
    + BlindRotationExecute<CGGI, BE>
    + LookupTableFactory
    + GLWESecretPreparedFactory<BE>
    + GLWEDecrypt<BE>
    + LWEEncryptSk<BE>
{
}
impl<BE: Backend, T> BrModule<BE> for T where
    T: ModuleN
        + BlindRotationKeyEncryptSk<CGGI, BE>
        + BlindRotationKeyPreparedFactory<CGGI, BE>
        + BlindRotationExecute<CGGI, BE>
        + LookupTableFactory
        + GLWESecretPreparedFactory<BE>
        + GLWEDecrypt<BE>
        + LWEEncryptSk<BE>
{
}

#[derive(Clone, Copy, Debug)]
pub enum KeyDist {
    Block(usize),
    BinaryProb,
    BinaryHw(usize),
    Zero,
}

#[derive(Clone, Copy, Debug)]
pub struct Params {
    pub n_lwe: usize,
    pub dist: KeyDist,
    pub base2k: usize,
    pub dnum: usize,
    pub rank: usize,
    pub res_limbs: usize,
    pub seed: u8,
}

pub struct Keys<BE: Backend> {
    pub sk_glwe: GLWESecretPrepared<DeviceBuf<BE>, BE>,
    pub sk_lwe: LWESecret<Vec<u8>>,
    pub brk: BlindRotationKeyPrepared<DeviceBuf<BE>, CGGI, BE>,
    pub glwe_infos: EncryptionLayout<GLWELayout>,
    pub brk_infos: EncryptionLayout<BlindRotationKeyLayout>,
    pub block_size: usize,
    pub p: Params,
}

pub fn keygen<M, BE: Backend>(module: &M, p: Params) -> Keys<BE>
where
    M: BrModule<BE>,
    ScratchOwned<BE>: ScratchOwnedAlloc<BE> + ScratchOwnedBorrow<BE>,
    Scratch<BE>: ScratchTakeCore<BE>,
{
    let n_glwe = module.n();
    let mut source_xs = Source::new([p.seed; 32]);
    let mut source_xe = Source::new([p.seed.wrapping_add(1); 32]);
    let mut source_xa = Source::new([p.seed.wrapping_add(2); 32]);

    let brk_infos = EncryptionLayout::new_from_default_sigma(BlindRotationKeyLayout {
        n_glwe: n_glwe.into(),
        n_lwe: p.n_lwe.into(),
        base2k: p.base2k.into(),
        k: ((p.dnum + 1) * p.base2k).into(),
        dnum: p.dnum.into(),
        rank: p.rank.into(),
    })
    .unwrap();

    let glwe_infos = EncryptionLayout::new_from_default_sigma(GLWELayout {
        n: n_glwe.into(),
        base2k: p.base2k.into(),
        k: (p.res_limbs * p.base2k).into(),
        rank: p.rank.into(),
    })
    .unwrap();

    let mut scratch: ScratchOwned<BE> = ScratchOwned::<BE>::alloc(BlindRotationKey::encrypt_sk_tmp_bytes(module, &brk_infos) + (1 << 16));

    let mut sk_glwe: GLWESecret<Vec<u8>> = GLWESecret::alloc_from_infos(&glwe_infos);
    sk_glwe.fill_ternary_prob(0.5, &mut source_xs);
    let mut sk_glwe_dft: GLWESecretPrepared<DeviceBuf<BE>, BE> = module.glwe_secret_prepared_alloc_from_infos(&glwe_infos);
    module.glwe_secret_prepare(&mut sk_glwe_dft, &sk_glwe);

    let mut sk_lwe: LWESecret<Vec<u8>> = LWESecret::alloc(p.n_lwe.into());
    let block_size = match p.dist {
        KeyDist::Block(bs) => {
            sk_lwe.fill_binary_block(bs, &mut source_xs);
            bs
        }
        KeyDist::BinaryProb => {
            sk_lwe.fill_binary_prob(0.5, &mut source_xs);
            1
        }
        KeyDist::BinaryHw(hw) => {
            sk_lwe.fill_binary_hw(hw, &mut source_xs);
            1
        }
        KeyDist::Zero => {
            sk_lwe.fill_zero();
            1
        }
    };

    let mut brk: BlindRotationKey<Vec<u8>, CGGI> = BlindRotationKey::<Vec<u8>, CGGI>::alloc(&brk_infos);
    module.blind_rotation_key_encrypt_sk(
        &mut brk,
        &sk_glwe_dft,
        &sk_lwe,
        &brk_infos,
        &mut source_xe,
        &mut source_xa,
        scratch.borrow(),
    );

    let mut scratch_p: ScratchOwned<BE> =
        ScratchOwned::<BE>::alloc(BlindRotationKeyPrepared::<DeviceBuf<BE>, CGGI, BE>::prepare_tmp_bytes(module, &brk_infos) + (1 << 16));
    let mut brk_prepared: BlindRotationKeyPrepared<DeviceBuf<BE>, CGGI, BE> = BlindRotationKeyPrepared::alloc(module, &brk);
    brk_prepared.prepare(module, &brk, scratch_p.borrow());

    Keys {
        sk_glwe: sk_glwe_dft,
        sk_lwe,
        brk: brk_prepared,
        glwe_infos,
        brk_infos,
        block_size,
        p,
    }
}

// ---------------------------------------------------------------------------------------------
// Integer model
// ---------------------------------------------------------------------------------------------

/// Multiplies `v` (coefficients of a polynomial in Z[Y]/(Y^D+1)) by Y^r.
pub fn negarot(v: &[i64], r: i64) -> Vec<i64> {
    let d = v.len() as i64;
    let mut out = vec![0i64; v.len()];
    for (p, &x) in v.iter().enumerate() {
        let q = (p as i64 + r).rem_euclid(2 * d);
        if q < d {
            out[q as usize] = x;
        } else {
            out[(q - d) as usize] = -x;
        }
    }
    out
}

/// Table model in the big ring, in units of `f` (i.e. value f/2^k on the torus), including the
/// half-step drift.
pub fn model_lut(f: &[i64], domain: usize) -> Vec<i64> {
    assert!(domain % f.len() == 0);
    let step = domain / f.len();
    let mut base = vec![0i64; domain];
    for (p, b) in base.iter_mut().enumerate() {
        *b = f[p / step];
    }
    negarot(&base, -((step / 2) as i64))
}

/// Expected content of the output polynomial (degree N) for a rotation by Y^r.
pub fn expected_res(model: &[i64], r: i64, ext: usize) -> Vec<i64> {
    negarot(model, r).iter().step_by(ext).copied().collect()
}

/// Writes the torus value `t / 2^(size*base2k)` into balanced base-2^base2k digits.
pub fn balanced_digits(mut t: i128, base2k: usize, size: usize) -> Vec<i64> {
    let tot = base2k * size;
    let modulus: i128 = 1i128 << tot;
    t = t.rem_euclid(modulus);
    let mut digits = vec![0i64; size];
    let mut carry: i128 = 0;
    let b: i128 = 1i128 << base2k;
    for j in (0..size).rev() {
        let mut d = (t & (b - 1)) + carry;
        t >>= base2k;
        carry = 0;
        if d >= b / 2 {
            d -= b;
            carry = 1;
        }
        digits[j] = d as i64;
    }
    digits
}

/// Build an LWE sample with given torus values (numerators over 2^(size*base2k)).
pub fn craft_lwe(n_lwe: usize, base2k: usize, size: usize, b: i128, a: &[i128]) -> LWE<Vec<u8>> {
    assert_eq!(a.len(), n_lwe);
    let mut lwe: LWE<Vec<u8>> = LWE::alloc((n_lwe as u32).into(), (base2k as u32).into(), ((size * base2k) as u32).into());
    assert_eq!(lwe.size(), size);
    let db = balanced_digits(b, base2k, size);
    for j in 0..size {
        lwe.data_mut().at_mut(0, j)[0] = db[j];
    }
    for (i, &ai) in a.iter().enumerate() {
        let da = balanced_digits(ai, base2k, size);
        for j in 0..size {
            lwe.data_mut().at_mut(0, j)[1 + i] = da[j];
        }
    }
    lwe
}

/// LWE sample whose mod-switched image (for modulus 2^m) is exactly (b, a) (before the direction
/// sign flip), encoded on `size` limbs.
pub fn craft_lwe_exact(n_lwe: usize, base2k: usize, size: usize, m: usize, b: i64, a: &[i64]) -> LWE<Vec<u8>> {
    let tot = base2k * size;
    assert!(tot >= m);
    let sh = tot - m;
    let a2: Vec<i128> = a.iter().map(|&x| (x as i128) << sh).collect();
    craft_lwe(n_lwe, base2k, size, (b as i128) << sh, &a2)
}

/// Oracle index from the library's own mod switch: b' + <a', s> mod 2D.
pub fn index_from_mod_switch(lwe: &LWE<Vec<u8>>, sk: &LWESecret<Vec<u8>>, two_d: usize, dir: LookUpTableRotationDirection) -> i64 {
    let mut lwe_2n: Vec<i64> = vec![0i64; lwe.n().as_usize() + 1];
    mod_switch_2n(two_d, &mut lwe_2n, &lwe.to_ref(), dir);
    (lwe_2n[0] + lwe_2n[1..].iter().zip(sk.raw()).map(|(x, y)| x * y).sum::<i64>()).rem_euclid(two_d as i64)
}

pub fn decode_torus(pt: &GLWEPlaintext<Vec<u8>>, base2k: usize) -> (Vec<i128>, usize) {
    let size = pt.data().size();
    let n = pt.data().n();
    let tot = size * base2k;
    let mut out = vec![0i128; n];
    for j in 0..size {
        let limb = pt.data().at(0, j);
        for i in 0..n {
            out[i] += (limb[i] as i128) << (base2k * (size - 1 - j));
        }
    }
    for x in out.iter_mut() {
        *x = x.rem_euclid(1i128 << tot);
    }
    (out, tot)
}

/// Returns list of mismatching coefficient indices (|have - want| >= 2^(tot-k-guard)).
pub fn compare(have: &[i128], tot: usize, want_f: &[i64], k: usize, guard: usize) -> Vec<(usize, i64, f64)> {
    assert!(tot > k + guard);
    let modulus = 1i128 << tot;
    let mut bad = vec![];
    for i in 0..have.len() {
        let want = ((want_f[i] as i128) << (tot - k)).rem_euclid(modulus);
        let mut d = (have[i] - want).rem_euclid(modulus);
        if d >= modulus / 2 {
            d -= modulus;
        }
        if d.abs() >= (1i128 << (tot - k - guard)) {
            // report the value actually seen, in units of f
            let seen = (have[i] as f64) / ((1i128 << (tot - k)) as f64);
            bad.push((i, want_f[i], seen));
        }
    }
    bad
}

pub struct Runner<'a, M, BE: Backend> {
    pub module: &'a M,
    pub keys: &'a Keys<BE>,
    pub scratch_br: ScratchOwned<BE>,
    pub scratch: ScratchOwned<BE>,
    pub dirty_res: bool,
}

impl<'a, M, BE: Backend> Runner<'a, M, BE>
where
    M: BrModule<BE>,
    ScratchOwned<BE>: ScratchOwnedAlloc<BE> + ScratchOwnedBorrow<BE>,
    Scratch<BE>: ScratchTakeCore<BE>,
{
    /// Exact-size scratch for the execution.
    pub fn new(module: &'a M, keys: &'a Keys<BE>, ext: usize) -> Self {
        let bytes = BlindRotationKeyPrepared::<DeviceBuf<BE>, CGGI, BE>::execute_tmp_bytes(
            module,
            keys.block_size,
            ext,
            &keys.glwe_infos,
            &keys.brk_infos,
        );
        Self {
            module,
            keys,
            scratch_br: ScratchOwned::<BE>::alloc(bytes),
            scratch: ScratchOwned::<BE>::alloc(1 << 20),
            dirty_res: true,
        }
    }

    pub fn run(&mut self, lwe: &LWE<Vec<u8>>, lut: &LookupTable) -> (Vec<i128>, usize) {
        let mut res: GLWE<Vec<u8>> = GLWE::alloc_from_infos(&self.keys.glwe_infos);
        if self.dirty_res {
            let size = res.data().size();
            let cols = res.data().cols();
            for c in 0..cols {
                for j in 0..size {
                    res.data_mut().at_mut(c, j).iter_mut().enumerate().for_each(|(i, x)| *x = 12345 + (i as i64) * 77 - (j as i64));
                }
            }
        }
        self.keys.brk.execute(self.module, &mut res, lwe, lut, self.scratch_br.borrow());
        let mut pt: GLWEPlaintext<Vec<u8>> = GLWEPlaintext::alloc_from_infos(&self.keys.glwe_infos);
        self.module.glwe_decrypt(&res, &mut pt, &self.keys.sk_glwe, self.scratch.borrow());
        decode_torus(&pt, self.keys.p.base2k)
    }
}

pub fn make_lut<M: LookupTableFactory + ModuleN>(
    module: &M,
    ext: usize,
    base2k: usize,
    k_lut: usize,
    f: &[i64],
    k: usize,
    dir: LookUpTableRotationDirection,
) -> LookupTable {
    let lut_infos = LookUpTableLayout {
        n: module.n().into(),
        extension_factor: ext,
        k: k_lut.into(),
        base2k: base2k.into(),
    };
    let mut lut = LookupTable::alloc(&lut_infos);
    lut.set(module, f, k);
    lut.set_rotation_direction(dir);
    lut
}

fn table(len: usize, k: usize, kind: usize) -> Vec<i64> {
    // values in Z_{2^k}; all distinct from each other and from their negations when possible
    (0..len)
        .map(|i| match kind {
            0 => (2 * i as i64 + 1) % (1i64 << k),
            1 => ((i as i64) * 3 + 1) % (1i64 << k),
            _ => (i as i64) - (len as i64) / 2,
        })
        .collect()
}

struct Lcg(u64);
impl Lcg {
    fn next(&mut self) -> u64 {
        self.0 = self.0.wrapping_mul(6364136223846793005).wrapping_add(1442695040888963407);
        self.0 >> 33
    }
}

// ---------------------------------------------------------------------------------------------
// 1. mod_switch_2n against the exact rounding model
// ---------------------------------------------------------------------------------------------

/// For every radix / size / modulus combination, the mod-switched value must be within 1 of
/// round(+-t * 2^m / 2^K) modulo 2^m.
fn mod_switch_case(base2k: usize, size: usize, m: usize, dir: LookUpTableRotationDirection, rng: &mut Lcg) -> Vec<String> {
    let tot = base2k * size;
    let n_lwe = 15;
    let mut errs = vec![];
    let vals: Vec<i128> = (0..=n_lwe).map(|_| ((rng.next() as i128) << 31 ^ rng.next() as i128) & ((1i128 << tot) - 1)).collect();
    let lwe = craft_lwe(n_lwe, base2k, size, vals[0], &vals[1..]);
    let mut out = vec![0i64; n_lwe + 1];
    mod_switch_2n(1 << m, &mut out, &lwe.to_ref(), dir);
    for i in 0..=n_lwe {
        let t = match dir {
            LookUpTableRotationDirection::Left => -vals[i],
            LookUpTableRotationDirection::Right => vals[i],
        };
        // exact: round(t * 2^m / 2^tot)
        let want: i128 = if tot >= m {
            let sh = tot - m;
            if sh == 0 { t } else { (t + (1i128 << (sh - 1))) >> sh }
        } else {
            t << (m - tot)
        };
        let modulus = 1i128 << m;
        let mut d = (out[i] as i128 - want).rem_euclid(modulus);
        if d >= modulus / 2 {
            d -= modulus;
        }
        if d.abs() > 1 {
            errs.push(format!(
                "base2k={base2k} size={size} 2N*ext=2^{m} dir={dir:?} coeff#{i}: t={}/2^{tot} got {} want {} (diff {d} mod 2^{m})",
                vals[i],
                out[i],
                want.rem_euclid(modulus)
            ));
        }
    }
    errs
}

#[test]
fn mod_switch_matches_exact_rounding_large_radix() {
    // base2k > log2(2N*ext) + 1 : library "fast" branch
    let mut rng = Lcg(1);
    let mut errs = vec![];
    for m in 4..=14 {
        for base2k in (m + 2)..=(m + 12).min(50) {
            for size in 1..=3 {
                for dir in [LookUpTableRotationDirection::Left, LookUpTableRotationDirection::Right] {
                    errs.extend(mod_switch_case(base2k, size, m, dir, &mut rng));
                }
            }
        }
    }
    assert!(errs.is_empty(), "{} errors, first: {:#?}", errs.len(), &errs[..errs.len().min(8)]);
}

#[test]
fn mod_switch_matches_exact_rounding_small_radix() {
    // base2k <= log2(2N*ext) + 1 : library multi-limb branch
    let mut rng = Lcg(2);
    let mut errs = vec![];
    let mut combos = 0;
    for m in 4..=14usize {
        for base2k in 2..=(m + 1) {
            let min_size = (m + 1).div_ceil(base2k);
            for size in min_size..=min_size + 1 {
                for dir in [LookUpTableRotationDirection::Left, LookUpTableRotationDirection::Right] {
                    combos += 1;
                    errs.extend(mod_switch_case(base2k, size, m, dir, &mut rng));
                }
            }
        }
    }
    assert!(
        errs.is_empty(),
        "{} errors over {combos} combos, first: {:#?}",
        errs.len(),
        &errs[..errs.len().min(12)]
    );
}

// ---------------------------------------------------------------------------------------------
// 2. Clear path: table encoding + lookup_table_rotate, observed through a trivial (a = 0) sample
// ---------------------------------------------------------------------------------------------

fn clear_path<M, BE: Backend>(module: &M, ext: usize, dist: KeyDist, base2k: usize) -> Vec<String>
where
    M: BrModule<BE>,
    ScratchOwned<BE>: ScratchOwnedAlloc<BE> + ScratchOwnedBorrow<BE>,
    Scratch<BE>: ScratchTakeCore<BE>,
{
    let n = module.n();
    let d = n * ext;
    let m = (2 * d).trailing_zeros() as usize;
    let n_lwe = match dist {
        KeyDist::Block(bs) => 2 * bs,
        _ => 3,
    };
    let keys = keygen::<M, BE>(
        module,
        Params {
            n_lwe,
            dist,
            base2k,
            dnum: 2,
            rank: 1,
            res_limbs: 2,
            seed: 7,
        },
    );
    let mut runner = Runner::new(module, &keys, ext);
    let mut errs = vec![];
    let lwe_size = (m + 2).div_ceil(base2k);

    let mut f_len = 1;
    while f_len <= n {
        // k = number of message bits; exercise k < base2k, k == base2k, k > base2k
        for &k in &[1usize, 3, 5, base2k, base2k + 3] {
            let kk = k.min(20);
            let f = if f_len <= (1 << kk.min(10)) { table(f_len, kk, 0) } else { table(f_len, kk, 2) };
            let model = model_lut(&f, d);
            for dir in [LookUpTableRotationDirection::Left, LookUpTableRotationDirection::Right] {
                // rotation of the table in the clear, then trivial sample b
                let rots: Vec<i64> = if f_len == n || f_len == 1 || f_len == 4 {
                    (0..2 * d as i64).collect()
                } else {
                    vec![0, 1, (d as i64) - 1, d as i64, 2 * d as i64 - 1]
                };
                for &rot in &rots {
                    let mut lut = make_lut(module, ext, base2k, 2 * base2k, &f, k, dir);
                    // clear rotation (public trait method)
                    let pre: i64 = (rot * 7 + 3) % (2 * d as i64);
                    let pre_signed = if rot % 2 == 0 { pre } else { pre - 2 * d as i64 };
                    module.lookup_table_rotate(pre_signed, &mut lut);
                    let a = vec![0i64; n_lwe];
                    let lwe = craft_lwe_exact(n_lwe, base2k, lwe_size, m, rot, &a);
                    let r_ms = index_from_mod_switch(&lwe, &keys.sk_lwe, 2 * d, dir);
                    let r_want = match dir {
                        LookUpTableRotationDirection::Left => (-rot).rem_euclid(2 * d as i64),
                        LookUpTableRotationDirection::Right => rot,
                    };
                    if r_ms != r_want {
                        errs.push(format!("mod switch of exact sample: got {r_ms} want {r_want} (ext={ext} base2k={base2k})"));
                        continue;
                    }
                    let want = expected_res(&model, r_want + pre_signed, ext);
                    let (have, tot) = runner.run(&lwe, &lut);
                    let bad = compare(&have, tot, &want, k, 3);
                    if !bad.is_empty() {
                        errs.push(format!(
                            "ext={ext} dist={dist:?} base2k={base2k} f_len={f_len} k={k} dir={dir:?} pre_rot={pre_signed} b={rot}: {} bad coeffs, first (idx,want,seen)={:?}",
                            bad.len(),
                            bad[0]
                        ));
                    }
                }
            }
        }
        f_len *= 2;
    }
    errs
}

#[test]
fn clear_path_standard_fft64() {
    let module: Module<FFT64Ref> = Module::<FFT64Ref>::new(16);
    let errs = clear_path::<_, FFT64Ref>(&module, 1, KeyDist::BinaryProb, 17);
    assert!(errs.is_empty(), "{} errors, first: {:#?}", errs.len(), &errs[..errs.len().min(8)]);
}

#[test]
fn clear_path_block_fft64() {
    let module: Module<FFT64Ref> = Module::<FFT64Ref>::new(16);
    let errs = clear_path::<_, FFT64Ref>(&module, 1, KeyDist::Block(3), 17);
    assert!(errs.is_empty(), "{} errors, first: {:#?}", errs.len(), &errs[..errs.len().min(8)]);
}

#[test]
fn clear_path_extended_fft64() {
    let module: Module<FFT64Ref> = Module::<FFT64Ref>::new(16);
    let mut errs = vec![];
    for ext in [2, 4, 8] {
        errs.extend(clear_path::<_, FFT64Ref>(&module, ext, KeyDist::Block(2), 17));
    }
    assert!(errs.is_empty(), "{} errors, first: {:#?}", errs.len(), &errs[..errs.len().min(8)]);
}

#[test]
fn clear_path_ntt120() {
    let module: Module<NTT120Ref> = Module::<NTT120Ref>::new(16);
    let mut errs = vec![];
    errs.extend(clear_path::<_, NTT120Ref>(&module, 1, KeyDist::BinaryProb, 17));
    errs.extend(clear_path::<_, NTT120Ref>(&module, 2, KeyDist::Block(2), 17));
    assert!(errs.is_empty(), "{} errors, first: {:#?}", errs.len(), &errs[..errs.len().min(8)]);
}

// ---------------------------------------------------------------------------------------------
// 3. Blind path with crafted (noise-free, exactly representable) samples: every index, both
//    directions, special mask values.
// ---------------------------------------------------------------------------------------------

/// `a` (already mod-switched, any representative) hits the corner of the extended accumulator
/// update: inter-polynomial shift (a mod ext != 0) together with an intra-polynomial rotation of
/// X^0 or X^{2N}.
fn is_corner(a: i64, ext: usize, n: usize) -> bool {
    let two_d = (2 * n * ext) as i64;
    let pos = a.rem_euclid(two_d) as usize;
    let hi = pos / ext;
    let lo = pos % ext;
    lo != 0 && (hi == 0 || hi == 2 * n - 1)
}

#[derive(Default)]
struct Errs {
    /// library modulus switch disagrees with the exact phase of an exactly representable sample
    mod_switch: Vec<String>,
    /// output != table rotated by the library's own mod-switched index, no corner mask value active
    rot_plain: Vec<String>,
    /// same, but at least one active (s_i = 1) mask value is a corner value
    rot_corner: Vec<String>,
    /// number of runs / number of runs with a corner value active / of which coefficient 0 wrong
    runs: usize,
    corner_runs: usize,
    corner_bad: usize,
    corner_bad_coeff0: usize,
}

impl Errs {
    fn merge(&mut self, o: Errs) {
        self.mod_switch.extend(o.mod_switch);
        self.rot_plain.extend(o.rot_plain);
        self.rot_corner.extend(o.rot_corner);
        self.runs += o.runs;
        self.corner_runs += o.corner_runs;
        self.corner_bad += o.corner_bad;
        self.corner_bad_coeff0 += o.corner_bad_coeff0;
    }
}

fn report(what: &str, errs: &[String]) {
    assert!(errs.is_empty(), "{what}: {} errors, first: {:#?}", errs.len(), &errs[..errs.len().min(10)]);
}

#[derive(Clone, Copy, PartialEq)]
enum Mask {
    /// random values, never a corner value
    NoCorner,
    /// random values + the given special values
    Any,
}

fn blind_exact<M, BE: Backend>(
    module: &M,
    ext: usize,
    p: Params,
    lwe_base2k: usize,
    lut_limbs: usize,
    f: &[i64],
    k: usize,
    mask: Mask,
    special: &[i64],
    label: &str,
) -> Errs
where
    M: BrModule<BE>,
    ScratchOwned<BE>: ScratchOwnedAlloc<BE> + ScratchOwnedBorrow<BE>,
    Scratch<BE>: ScratchTakeCore<BE>,
{
    let n = module.n();
    let d = n * ext;
    let two_d = 2 * d as i64;
    let m = (2 * d).trailing_zeros() as usize;
    let keys = keygen::<M, BE>(module, p);
    let mut runner = Runner::new(module, &keys, ext);
    let mut errs = Errs::default();
    let lwe_size = (m + 2).div_ceil(lwe_base2k);
    let f_len = f.len();
    let model = model_lut(f, d);
    let mut rng = Lcg(p.seed as u64 + 99);
    let sk: Vec<i64> = keys.sk_lwe.raw().to_vec();

    for dir in [LookUpTableRotationDirection::Left, LookUpTableRotationDirection::Right] {
        let lut = make_lut(module, ext, p.base2k, lut_limbs * p.base2k, f, k, dir);
        for idx in 0..two_d {
            let mut a: Vec<i64> = (0..p.n_lwe)
                .map(|_| loop {
                    let v = (rng.next() as i64) % two_d;
                    if mask == Mask::Any || !(is_corner(v, ext, n)) {
                        break v;
                    }
                })
                .collect();
            if !special.is_empty() {
                for (j, aj) in a.iter_mut().enumerate() {
                    if (j + idx as usize) % 2 == 0 {
                        *aj = special[(j + idx as usize / 2) % special.len()].rem_euclid(two_d);
                    }
                }
            }
            let dot: i64 = a.iter().zip(sk.iter()).map(|(x, y)| x * y).sum();
            let b = (idx - dot).rem_euclid(two_d);
            let lwe = craft_lwe_exact(p.n_lwe, lwe_base2k, lwe_size, m, b, &a);
            // phase of the sample is idx / 2D exactly.
            let r_want = match dir {
                LookUpTableRotationDirection::Left => (-idx).rem_euclid(two_d),
                LookUpTableRotationDirection::Right => idx,
            };
            let r_ms = index_from_mod_switch(&lwe, &keys.sk_lwe, 2 * d, dir);
            if r_ms != r_want {
                errs.mod_switch.push(format!(
                    "[{label}] mod_switch_2n index mismatch: lwe_base2k={lwe_base2k} size={lwe_size} 2D=2^{m} dir={dir:?} phase={idx}/2D: got {r_ms} want {r_want}"
                ));
            }
            // what the library itself sees as mask after the switch
            let mut lwe_2n: Vec<i64> = vec![0i64; p.n_lwe + 1];
            mod_switch_2n(2 * d, &mut lwe_2n, &lwe.to_ref(), dir);
            let active: Vec<i64> = lwe_2n[1..]
                .iter()
                .zip(sk.iter())
                .filter(|(_, s)| **s != 0)
                .map(|(x, _)| {
                    let x = x.rem_euclid(two_d);
                    if x >= two_d / 2 { x - two_d } else { x }
                })
                .collect();
            let corner = ext > 1 && active.iter().any(|&x| is_corner(x, ext, n));

            let want = expected_res(&model, r_ms, ext);
            let (have, tot) = runner.run(&lwe, &lut);
            let bad = compare(&have, tot, &want, k, 3);
            errs.runs += 1;
            if corner {
                errs.corner_runs += 1;
            }
            if !bad.is_empty() {
                let coeff0 = bad.iter().any(|x| x.0 == 0);
                let msg = format!(
                    "[{label}] ext={ext} dist={:?} dir={dir:?} f_len={f_len} k={k} phase={idx} index={r_ms}: {} bad coeffs, coeff0_bad={coeff0}, first (idx,want,seen)={:?}; active mask values (signed, after switch) {:?}",
                    p.dist,
                    bad.len(),
                    bad[0],
                    active
                );
                if corner {
                    errs.corner_bad += 1;
                    if coeff0 {
                        errs.corner_bad_coeff0 += 1;
                    }
                    errs.rot_corner.push(msg);
                } else {
                    errs.rot_plain.push(msg);
                }
            }
        }
    }
    errs
}

fn std_params(n_lwe: usize, dist: KeyDist, seed: u8) -> Params {
    Params {
        n_lwe,
        dist,
        base2k: 17,
        dnum: 2,
        rank: 1,
        res_limbs: 2,
        seed,
    }
}

#[test]
fn blind_exact_standard_fft64() {
    let module: Module<FFT64Ref> = Module::<FFT64Ref>::new(16);
    let mut errs = Errs::default();
    for (seed, dist) in [(1u8, KeyDist::BinaryProb), (2, KeyDist::BinaryHw(3)), (3, KeyDist::Block(1)), (4, KeyDist::Zero)] {
        for &(f_len, k) in &[(1usize, 1usize), (2, 2), (4, 3), (8, 4), (16, 5)] {
            let f = table(f_len, k, 0);
            errs.merge(blind_exact::<_, FFT64Ref>(
                &module,
                1,
                std_params(6, dist, seed),
                17,
                1,
                &f,
                k,
                Mask::Any,
                &[0, 1, -1, 16, 31],
                "std",
            ));
        }
    }
    report("mod switch", &errs.mod_switch);
    report("rotation", &errs.rot_plain);
}

#[test]
fn blind_exact_block_fft64() {
    let module: Module<FFT64Ref> = Module::<FFT64Ref>::new(16);
    let mut errs = Errs::default();
    for (seed, bs) in [(1u8, 2usize), (2, 3), (3, 6)] {
        for &(f_len, k) in &[(1usize, 1usize), (4, 3), (16, 5)] {
            let f = table(f_len, k, 0);
            errs.merge(blind_exact::<_, FFT64Ref>(
                &module,
                1,
                std_params(6, KeyDist::Block(bs), seed),
                17,
                1,
                &f,
                k,
                Mask::Any,
                &[0, 1, -1, 16, 31],
                "block",
            ));
        }
    }
    report("mod switch", &errs.mod_switch);
    report("rotation", &errs.rot_plain);
}

/// rank 2, result with more/less limbs than the table, negative table entries, k multiple of base2k
#[test]
fn blind_exact_rank2_and_sizes_fft64() {
    let module: Module<FFT64Ref> = Module::<FFT64Ref>::new(16);
    let mut errs = Errs::default();
    for (ext, dist) in [(1usize, KeyDist::BinaryProb), (1, KeyDist::Block(3)), (2, KeyDist::Block(3))] {
        for rank in [1usize, 2] {
            for res_limbs in [2usize, 3] {
                for lut_limbs in [1usize, 2, 3] {
                    for &(k, kind) in &[(4usize, 2usize), (15, 1), (18, 2)] {
                        if k > lut_limbs * 15 {
                            continue;
                        }
                        let p = Params {
                            n_lwe: 6,
                            dist,
                            base2k: 15,
                            dnum: 3,
                            rank,
                            res_limbs,
                            seed: 9,
                        };
                        let f = table(8, k, kind);
                        errs.merge(blind_exact::<_, FFT64Ref>(&module, ext, p, 15, lut_limbs, &f, k, Mask::NoCorner, &[0, 2, -2], "sizes"));
                    }
                }
            }
        }
    }
    report("mod switch", &errs.mod_switch);
    report("rotation", &errs.rot_plain);
}

/// Extended path; mask values never in the corner set.
#[test]
fn blind_exact_extended_no_corner_fft64() {
    let module: Module<FFT64Ref> = Module::<FFT64Ref>::new(16);
    let mut errs = Errs::default();
    for ext in [2usize, 4, 8] {
        for (seed, bs) in [(1u8, 1usize), (2, 3), (3, 2)] {
            let e = ext as i64;
            let n2 = 32i64;
            // multiples of ext (pure intra-polynomial rotations), and mixed ones away from hi=0 / hi=2N-1
            let special: Vec<i64> = vec![0, e, -e, 16 * e, 3 * e + 1, -(5 * e) - 1, e + 1, (n2 - 2) * e + e - 1, (n2 - 1) * e, 2 * e - 1];
            for &(f_len, k) in &[(16usize, 5usize), (2, 2)] {
                let f = table(f_len, k, 0);
                errs.merge(blind_exact::<_, FFT64Ref>(
                    &module,
                    ext,
                    std_params(6, KeyDist::Block(bs), seed),
                    17,
                    1,
                    &f,
                    k,
                    Mask::NoCorner,
                    &special,
                    "ext-no-corner",
                ));
            }
        }
    }
    assert_eq!(errs.corner_runs, 0);
    report("mod switch", &errs.mod_switch);
    report("rotation", &errs.rot_plain);
}

/// Extended path with mask values a_i in +-{1..ext-1} (mod 2N*ext): X^{a_i} moves coefficients
/// between the interleaved polynomials while the per-polynomial rotation is X^0 or X^{2N}=1.
#[test]
fn blind_exact_extended_corner_mask_fft64() {
    let module: Module<FFT64Ref> = Module::<FFT64Ref>::new(16);
    let mut errs = Errs::default();
    for ext in [2usize, 4, 8] {
        for (seed, bs) in [(1u8, 1usize), (2, 3)] {
            for &(f_len, k) in &[(16usize, 5usize), (4, 3), (1, 1)] {
                let mut special: Vec<i64> = vec![];
                for s in 1..ext as i64 {
                    special.push(s);
                    special.push(-s);
                }
                let f = table(f_len, k, 0);
                let e = blind_exact::<_, FFT64Ref>(
                    &module,
                    ext,
                    std_params(6, KeyDist::Block(bs), seed),
                    17,
                    1,
                    &f,
                    k,
                    Mask::Any,
                    &special,
                    "ext-corner",
                );
                println!(
                    "ext={ext} block={bs} f_len={f_len}: runs={} with-corner-value={} wrong={} wrong-at-coeff0={} (wrong without corner value: {})",
                    e.runs,
                    e.corner_runs,
                    e.corner_bad,
                    e.corner_bad_coeff0,
                    e.rot_plain.len()
                );
                errs.merge(e);
            }
        }
    }
    report("rotation, no corner value active", &errs.rot_plain);
    report("rotation, corner value active", &errs.rot_corner);
}

#[test]
fn blind_exact_ntt120() {
    let module: Module<NTT120Ref> = Module::<NTT120Ref>::new(16);
    let mut errs = Errs::default();
    let f = table(8, 4, 0);
    errs.merge(blind_exact::<_, NTT120Ref>(&module, 1, std_params(6, KeyDist::BinaryProb, 1), 17, 1, &f, 4, Mask::Any, &[0, 1, -1], "ntt-std"));
    errs.merge(blind_exact::<_, NTT120Ref>(&module, 1, std_params(6, KeyDist::Block(3), 2), 17, 1, &f, 4, Mask::Any, &[0, 1, -1], "ntt-block"));
    errs.merge(blind_exact::<_, NTT120Ref>(&module, 2, std_params(6, KeyDist::Block(3), 3), 17, 1, &f, 4, Mask::NoCorner, &[0, 2, -2, 5], "ntt-ext"));
    errs.merge(blind_exact::<_, NTT120Ref>(&module, 4, std_params(6, KeyDist::Block(2), 3), 17, 1, &f, 4, Mask::NoCorner, &[0, 4, -4, 9], "ntt-ext"));
    report("mod switch", &errs.mod_switch);
    report("rotation", &errs.rot_plain);
}

#[test]
fn blind_exact_extended_corner_mask_ntt120() {
    let module: Module<NTT120Ref> = Module::<NTT120Ref>::new(16);
    let f = table(16, 5, 0);
    let mut errs = Errs::default();
    for seed in [1u8, 2, 3] {
        let e = blind_exact::<_, NTT120Ref>(&module, 2, std_params(6, KeyDist::Block(3), seed), 17, 1, &f, 5, Mask::Any, &[1, -1], "ntt-ext-corner");
        println!(
            "ntt120 ext=2 seed={seed}: runs={} with-corner-value={} wrong={} wrong-at-coeff0={}",
            e.runs, e.corner_runs, e.corner_bad, e.corner_bad_coeff0
        );
        errs.merge(e);
    }
    report("rotation, no corner value active", &errs.rot_plain);
    report("rotation, corner value active", &errs.rot_corner);
}

/// LWE radix combinations: the sample radix may differ from the key radix; small radices take the
/// multi-limb branch of the modulus switch. Rotation must agree with the library's own switched
/// index (rot_plain) and the switched index must equal the exact phase (mod_switch).
fn radix_sweep(radices: &[usize]) -> Errs {
    let module: Module<FFT64Ref> = Module::<FFT64Ref>::new(16);
    let mut errs = Errs::default();
    for &lwe_base2k in radices {
        for (ext, dist) in [(1usize, KeyDist::BinaryProb), (1, KeyDist::Block(3)), (2, KeyDist::Block(3))] {
            let special: Vec<i64> = vec![0, 2 * ext as i64, -(2 * ext as i64)];
            let f = table(4, 3, 0);
            let mut e = blind_exact::<_, FFT64Ref>(
                &module,
                ext,
                std_params(6, dist, 5),
                lwe_base2k,
                1,
                &f,
                3,
                Mask::NoCorner,
                &special,
                &format!("radix{lwe_base2k}"),
            );
            e.mod_switch.truncate(3);
            errs.merge(e);
        }
    }
    errs
}

#[test]
fn blind_exact_lwe_radix_large_fft64() {
    // ext=1: 2D = 2^5, ext=2: 2D = 2^6 -> radix >= 8 is "large" for both
    let errs = radix_sweep(&[8, 9, 12, 17, 25, 40]);
    report("rotation", &errs.rot_plain);
    report("mod switch", &errs.mod_switch);
}

#[test]
fn blind_exact_lwe_radix_small_fft64() {
    let errs = radix_sweep(&[2, 3, 4, 5, 6, 7]);
    // corner values can appear after a wrong switch; they are accounted separately
    report("rotation", &errs.rot_plain);
    report("mod switch", &errs.mod_switch);
}

// ---------------------------------------------------------------------------------------------
// 4. Blind path with genuinely encrypted samples: every message of Z_{2^p}, p=1..5
// ---------------------------------------------------------------------------------------------

#[derive(Default)]
struct EncErrs {
    plain: Vec<String>,
    corner: Vec<String>,
    semantic: Vec<String>,
    runs: usize,
}

fn blind_encrypted<M, BE: Backend>(module: &M, ext: usize, p: Params, lwe_base2k: usize, k_lwe: usize, label: &str) -> EncErrs
where
    M: BrModule<BE>,
    ScratchOwned<BE>: ScratchOwnedAlloc<BE> + ScratchOwnedBorrow<BE>,
    Scratch<BE>: ScratchTakeCore<BE>,
{
    let n = module.n();
    let d = n * ext;
    let two_d = 2 * d as i64;
    let keys = keygen::<M, BE>(module, p);
    let mut runner = Runner::new(module, &keys, ext);
    let mut errs = EncErrs::default();
    let mut source_xe = Source::new([p.seed.wrapping_add(11); 32]);
    let mut source_xa = Source::new([p.seed.wrapping_add(12); 32]);
    let lwe_infos = EncryptionLayout::new_from_default_sigma(LWELayout {
        n: p.n_lwe.into(),
        k: k_lwe.into(),
        base2k: lwe_base2k.into(),
    })
    .unwrap();
    let sk: Vec<i64> = keys.sk_lwe.raw().to_vec();
    let hw: i64 = sk.iter().map(|x| x.abs()).sum();

    for log_p in 1..=5usize {
        let modulus = 1usize << log_p;
        if modulus > n {
            continue;
        }
        let k = log_p + 1;
        let f = table(modulus, k, 0);
        let model = model_lut(&f, d);
        let step = d / modulus;
        for dir in [LookUpTableRotationDirection::Left, LookUpTableRotationDirection::Right] {
            let lut = make_lut(module, ext, p.base2k, p.base2k, &f, k, dir);
            // all messages of the full torus Z_{2^(p+1)}: upper half wraps negacyclically
            for x in 0..(2 * modulus as i64) {
                let mut lwe: LWE<Vec<u8>> = LWE::alloc_from_infos(&lwe_infos);
                let mut pt_lwe: LWEPlaintext<Vec<u8>> = LWEPlaintext::alloc_from_infos(&lwe_infos);
                pt_lwe.encode_i64(x, (k as u32).into());
                module.lwe_encrypt_sk(
                    &mut lwe,
                    &pt_lwe,
                    &keys.sk_lwe,
                    &lwe_infos,
                    &mut source_xe,
                    &mut source_xa,
                    runner.scratch.borrow(),
                );
                let mut lwe_2n: Vec<i64> = vec![0i64; p.n_lwe + 1];
                mod_switch_2n(2 * d, &mut lwe_2n, &lwe.to_ref(), dir);
                let corner = ext > 1 && lwe_2n[1..].iter().zip(sk.iter()).any(|(a, s)| *s != 0 && is_corner(*a, ext, n));
                let r = index_from_mod_switch(&lwe, &keys.sk_lwe, 2 * d, dir);
                let want = expected_res(&model, r, ext);
                let (have, tot) = runner.run(&lwe, &lut);
                errs.runs += 1;
                let bad = compare(&have, tot, &want, k, 3);
                if !bad.is_empty() {
                    let msg = format!(
                        "[{label}] ext={ext} dist={:?} dir={dir:?} p={log_p} x={x}: rotated-table mismatch on {} coeffs (coeff0 bad: {}), first {:?}",
                        p.dist,
                        bad.len(),
                        bad.iter().any(|b| b.0 == 0),
                        bad[0]
                    );
                    if corner { errs.corner.push(msg) } else { errs.plain.push(msg) }
                }
                // semantic check at the constant coefficient, when the rounding error of the
                // modulus switch (at most (hw+1)/2 positions, + encryption noise) is below the half-step.
                if !corner && (hw + 2) / 2 < (step / 2) as i64 {
                    if let LookUpTableRotationDirection::Left = dir {
                        let fx = if (x as usize) < modulus { f[x as usize] } else { -f[x as usize - modulus] };
                        let bad0 = compare(&have[..1], tot, &[fx], k, 2);
                        if !bad0.is_empty() {
                            errs.semantic.push(format!(
                                "[{label}] ext={ext} dist={:?} p={log_p} x={x}: constant coefficient is not f(x): {:?} (mod-switched index {r}, ideal {})",
                                p.dist,
                                bad0[0],
                                (-(x * two_d) / (2 * modulus as i64)).rem_euclid(two_d)
                            ));
                        }
                    }
                }
            }
        }
    }
    errs
}

fn enc_sweep_fft64() -> EncErrs {
    let module: Module<FFT64Ref> = Module::<FFT64Ref>::new(64);
    let mut errs = EncErrs::default();
    for seed in [1u8, 2, 3] {
        for (ext, dist) in [
            (1usize, KeyDist::BinaryProb),
            (1, KeyDist::BinaryHw(4)),
            (1, KeyDist::Block(1)),
            (1, KeyDist::Block(4)),
            (2, KeyDist::Block(1)),
            (2, KeyDist::Block(4)),
            (4, KeyDist::Block(4)),
            (8, KeyDist::Block(2)),
        ] {
            let p = Params {
                n_lwe: 8,
                dist,
                base2k: 19,
                dnum: 2,
                rank: 1,
                res_limbs: 2,
                seed,
            };
            let e = blind_encrypted::<_, FFT64Ref>(&module, ext, p, 19, 24, "enc");
            errs.plain.extend(e.plain);
            errs.corner.extend(e.corner);
            errs.semantic.extend(e.semantic);
            errs.runs += e.runs;
        }
    }
    errs
}

#[test]
fn blind_encrypted_all_messages_fft64() {
    let errs = enc_sweep_fft64();
    println!("runs: {}", errs.runs);
    report("rotation (no corner mask value)", &errs.plain);
    report("f(x) at coefficient 0", &errs.semantic);
}

/// Same sweep; the runs where a mod-switched mask value of an active key bit falls in
/// +-{1..ext-1}.
#[test]
fn blind_encrypted_all_messages_corner_fft64() {
    let errs = enc_sweep_fft64();
    report("rotation (corner mask value active)", &errs.corner);
}

#[test]
fn blind_encrypted_all_messages_ntt120() {
    let module: Module<NTT120Ref> = Module::<NTT120Ref>::new(32);
    let mut plain = vec![];
    let mut semantic = vec![];
    for (ext, dist) in [(1usize, KeyDist::BinaryProb), (1, KeyDist::Block(4)), (2, KeyDist::Block(4)), (4, KeyDist::Block(2))] {
        let p = Params {
            n_lwe: 8,
            dist,
            base2k: 19,
            dnum: 2,
            rank: 1,
            res_limbs: 2,
            seed: 4,
        };
        let e = blind_encrypted::<_, NTT120Ref>(&module, ext, p, 19, 24, "enc-ntt");
        plain.extend(e.plain);
        semantic.extend(e.semantic);
    }
    report("rotation (no corner mask value)", &plain);
    report("f(x) at coefficient 0", &semantic);
}

/// Encrypted samples in small radix (radix <= log2(2N*ext)+1).
#[test]
fn blind_encrypted_small_lwe_radix_fft64() {
    let module: Module<FFT64Ref> = Module::<FFT64Ref>::new(64);
    let mut plain = vec![];
    let mut semantic = vec![];
    for (lwe_base2k, k_lwe) in [(8usize, 24usize), (7, 21), (6, 24), (4, 24)] {
        for (ext, dist) in [(1usize, KeyDist::BinaryProb), (1, KeyDist::Block(4)), (2, KeyDist::Block(4))] {
            let p = Params {
                n_lwe: 8,
                dist,
                base2k: 19,
                dnum: 2,
                rank: 1,
                res_limbs: 2,
                seed: 6,
            };
            let mut e = blind_encrypted::<_, FFT64Ref>(&module, ext, p, lwe_base2k, k_lwe, &format!("enc-radix{lwe_base2k}"));
            e.semantic.truncate(4);
            plain.extend(e.plain);
            semantic.extend(e.semantic);
        }
    }
    report("rotation (no corner mask value)", &plain);
    report("f(x) at coefficient 0", &semantic);
}

// ---------------------------------------------------------------------------------------------
// 5. Misc admissible-but-unusual arguments
// ---------------------------------------------------------------------------------------------

/// lookup_table_rotate with |k| beyond one period, re-encoding an already used table (dirty
/// output), result with a single limb.
fn clear_unusual(below_minus_period: bool) -> Vec<String> {
    let module: Module<FFT64Ref> = Module::<FFT64Ref>::new(16);
    let n = 16usize;
    let mut errs: Vec<String> = vec![];
    for (ext, dist) in [(1usize, KeyDist::BinaryProb), (1, KeyDist::Block(3)), (2, KeyDist::Block(3)), (4, KeyDist::Block(3))] {
        for res_limbs in [1usize, 2] {
            let d = n * ext;
            let two_d = 2 * d as i64;
            let m = (2 * d).trailing_zeros() as usize;
            let mut p = std_params(6, dist, 3);
            p.res_limbs = res_limbs;
            let keys = keygen::<_, FFT64Ref>(&module, p);
            let mut runner = Runner::new(&module, &keys, ext);
            let k = 4;
            let f0 = table(4, k, 1);
            let f = table(8, k, 0);
            let model = model_lut(&f, d);
            let a = vec![0i64; 6];
            let rots: Vec<i64> = if below_minus_period {
                vec![-5 * two_d - 3, -2 * two_d, -two_d - 1, -(1 << 40) + 5]
            } else {
                vec![-two_d, -two_d + 1, -1, 0, two_d, two_d + 1, 3 * two_d + 7, 1 << 40]
            };
            for rot in rots {
                // dirty table: first encode another function and rotate it
                let mut lut = make_lut(&module, ext, 17, 17, &f0, k, LookUpTableRotationDirection::Right);
                module.lookup_table_rotate(5, &mut lut);
                lut.set(&module, &f, k);
                let r = std::panic::catch_unwind(std::panic::AssertUnwindSafe(|| module.lookup_table_rotate(rot, &mut lut)));
                if r.is_err() {
                    errs.push(format!("ext={ext} lookup_table_rotate({rot}) panicked"));
                    continue;
                }
                let lwe = craft_lwe_exact(6, 17, 1, m, 3, &a);
                let want = expected_res(&model, rot.rem_euclid(two_d) + 3, ext);
                let (have, tot) = runner.run(&lwe, &lut);
                let bad = compare(&have, tot, &want, k, 3);
                if !bad.is_empty() {
                    errs.push(format!(
                        "ext={ext} dist={dist:?} res_limbs={res_limbs} lookup_table_rotate({rot}): {} bad coeffs, first {:?}",
                        bad.len(),
                        bad[0]
                    ));
                }
            }
        }
    }
    errs
}

#[test]
fn clear_path_unusual_arguments_fft64() {
    report("clear path, unusual arguments", &clear_unusual(false));
}

/// k < -2N*ext is outside the quantified domain of the property; recorded for completeness.
#[test]
fn clear_path_rotate_below_minus_period_fft64() {
    report("lookup_table_rotate(k < -2N*ext)", &clear_unusual(true));
}

/// Smallest direct reproductions of the modulus-switch defect (no blind rotation involved).
#[test]
fn mod_switch_minimal_examples() {
    let mut errs = vec![];
    // (a) N=16, ext=1 -> 2N = 32 = 2^5. Sample radix 6 = log2(2N)+1, one limb, phase 1/32.
    {
        let lwe = craft_lwe(1, 6, 1, 2, &[0]); // b = 2/64 = 1/32
        let mut out = vec![0i64; 2];
        mod_switch_2n(32, &mut out, &lwe.to_ref(), LookUpTableRotationDirection::Right);
        if out[0].rem_euclid(32) != 1 {
            errs.push(format!("2N=32, base2k=6, b=1/32, Right: got {} want 1", out[0]));
        }
    }
    // (b) parameters of examples/circuit_bootstrapping.rs with extension_factor=2:
    //     N=1024, ext=2 -> 2N*ext = 4096 = 2^12, radix 13, k_lwe = 13. phase 1/4 -> index 1024
    {
        let lwe = craft_lwe(1, 13, 1, 1 << 11, &[0]);
        let mut out = vec![0i64; 2];
        mod_switch_2n(4096, &mut out, &lwe.to_ref(), LookUpTableRotationDirection::Right);
        if out[0].rem_euclid(4096) != 1024 {
            errs.push(format!("2N*ext=4096, base2k=13, b=1/4, Right: got {} want 1024", out[0]));
        }
    }
    // (c) two limbs, Left direction: the lower limb is added with the wrong sign.
    //     2N = 2^9 = 512, radix 8, b = 3/2^9 = (digits [2, -128])/2^16  -> Left index = -3 = 509
    {
        let lwe = craft_lwe(1, 8, 2, 3 << 7, &[0]);
        let mut out = vec![0i64; 2];
        mod_switch_2n(512, &mut out, &lwe.to_ref(), LookUpTableRotationDirection::Left);
        if out[0].rem_euclid(512) != 509 {
            errs.push(format!("2N=512, base2k=8, b=3/512, Left: got {} (mod 512: {}) want 509", out[0], out[0].rem_euclid(512)));
        }
    }
    report("mod_switch_2n", &errs);
}
