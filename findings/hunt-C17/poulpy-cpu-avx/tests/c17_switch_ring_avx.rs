//! C17 — AVX backends, `vec_znx_switch_ring` / `vec_znx_split_ring` / `vec_znx_merge_rings` on ring
//! degrees below the SIMD width (N = 1, 2).
//!
//! `znx_switch_ring_avx` has a 4-lane main loop and NO scalar tail:
//!  * up-sampling   (a.n < res.n): `for i in (0..n_in).step_by(4)` loads 4 i64 from `a` and does four
//!    strided stores `res[(i+k)*gap]`, k = 0..3, even when `n_in` is 1 or 2
//!    -> reads past `a`, writes past `res`;
//!  * down-sampling (a.n > res.n): `span = n_out >> 2` is 0 for n_out = 1, 2 -> nothing is written.
//!
//! Operands are views over windows inside larger buffers owned by the test, so the overrun is
//! observed through guard bytes (no crash, no sanitizer needed). The oracle is the exact integer
//! definition of the map (res[k*gap] = a[k], resp. res[k] = a[k*gap]) and the reference backend.
//!
//!   RUSTFLAGS="-C target-feature=+avx2,+fma" cargo test --offline -p poulpy-cpu-avx --features enable-avx --test c17_switch_ring_avx
#![cfg(feature = "enable-avx")]

use poulpy_cpu_avx::{FFT64Avx, NTT120Avx};
use poulpy_cpu_ref::FFT64Ref;
use poulpy_hal::{
    api::{ModuleNew, VecZnxSwitchRing},
    layouts::{Backend, Module, VecZnx, ZnxView, ZnxViewMut},
};

const GUARD: usize = 1024; // larger than the farthest stray store (a.n=1 -> res.n=16 writes res[48])

struct Window {
    backing: Vec<u8>,
    len: usize,
    gfill: u8,
}
impl Window {
    fn new(len: usize, gfill: u8) -> Self {
        let mut backing: Vec<u8> = poulpy_hal::alloc_aligned::<u8>(GUARD + len.next_multiple_of(64) + GUARD);
        backing.fill(gfill);
        backing[GUARD..GUARD + len].fill(0);
        Self { backing, len, gfill }
    }
    fn bytes(&mut self) -> &mut [u8] {
        &mut self.backing[GUARD..GUARD + self.len]
    }
    fn modified_guard_bytes(&self) -> usize {
        self.backing[..GUARD].iter().filter(|&&x| x != self.gfill).count()
            + self.backing[GUARD + self.len..].iter().filter(|&&x| x != self.gfill).count()
    }
}

fn expected(n_out: usize, a: &[i64]) -> Vec<i64> {
    let n_in = a.len();
    let mut r = vec![0i64; n_out];
    if n_in >= n_out {
        let gap = n_in / n_out;
        for k in 0..n_out {
            r[k] = a[k * gap];
        }
    } else {
        let gap = n_out / n_in;
        for k in 0..n_in {
            r[k * gap] = a[k];
        }
    }
    r
}

fn run<B: Backend>(label: &str) -> Vec<String>
where
    Module<B>: ModuleNew<B> + VecZnxSwitchRing,
{
    let mut errs = vec![];
    let m: Module<B> = Module::<B>::new(16);
    for n_in in [1usize, 2, 4, 8, 16] {
        for n_out in [1usize, 2, 4, 8, 16] {
            let mut aw = Window::new(n_in * 8, 0x11); // bytes after `a` differ from the receiver's guard bytes
            let mut rw = Window::new(n_out * 8, 0xEE);
            let got: Vec<i64>;
            let a_vals: Vec<i64> = (0..n_in as i64).map(|x| 1000 + x).collect();
            {
                let mut a = VecZnx::from_data(aw.bytes(), n_in, 1, 1);
                a.at_mut(0, 0).copy_from_slice(&a_vals);
                let mut res = VecZnx::from_data(rw.bytes(), n_out, 1, 1);
                res.at_mut(0, 0).fill(-7); // dirty receiver
                m.vec_znx_switch_ring(&mut res, 0, &a, 0);
                got = res.at(0, 0).to_vec();
            }
            let bad = rw.modified_guard_bytes();
            if bad != 0 {
                errs.push(format!(
                    "{label}: switch_ring a.n={n_in} -> res.n={n_out}: {bad} bytes written OUTSIDE the receiver"
                ));
            }
            let want = expected(n_out, &a_vals);
            if got != want {
                errs.push(format!("{label}: switch_ring a.n={n_in} -> res.n={n_out}: got {got:?}, expected {want:?}"));
            }
        }
    }
    errs
}

#[test]
fn switch_ring_small_degrees_fft64_avx() {
    let e = run::<FFT64Avx>("FFT64Avx");
    assert!(e.is_empty(), "\n{}", e.join("\n"));
}

#[test]
fn switch_ring_small_degrees_ntt120_avx() {
    let e = run::<NTT120Avx>("NTT120Avx");
    assert!(e.is_empty(), "\n{}", e.join("\n"));
}

/// Sibling: the reference kernel handles every pair.
#[test]
fn switch_ring_small_degrees_fft64_ref() {
    let e = run::<FFT64Ref>("FFT64Ref");
    assert!(e.is_empty(), "\n{}", e.join("\n"));
}
