//! C17 — the operation-level harness of `poulpy-cpu-ref/tests/c17_hal_ops.rs`, instantiated for the
//! AVX2/FMA backends (the harness source is shared via include!).
//!
//! Build/run (AVX2+FMA host):
//!   RUSTFLAGS="-C target-feature=+avx2,+fma" cargo test --offline -p poulpy-cpu-avx --features enable-avx --test c17_hal_ops_avx
//! Under AddressSanitizer (nightly):
//!   RUSTFLAGS="-C target-feature=+avx2,+fma -Zsanitizer=address" cargo +nightly test --offline -p poulpy-cpu-avx \
//!       --features enable-avx --target x86_64-unknown-linux-gnu --test c17_hal_ops_avx
#![cfg(feature = "enable-avx")]
#![allow(clippy::too_many_arguments)]

include!("../../poulpy-cpu-ref/tests/c17_common/hal_ops_harness.rs");

backend_suite!(fft64_avx, poulpy_cpu_avx::FFT64Avx, [2usize, 4, 8, 16, 32], [2usize, 4, 8, 16, 32, 64]);
backend_suite!(ntt120_avx, poulpy_cpu_avx::NTT120Avx, [1usize, 2, 4, 8, 16, 32], [1usize, 2, 4, 8, 16, 32]);
