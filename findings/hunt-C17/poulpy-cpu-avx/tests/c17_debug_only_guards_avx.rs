//! C17 — AVX backends: the length relations the SIMD kernels rely on (`res.len() == a.len()`,
//! `x.len() <= carry.len()`) are asserted under `#[cfg(debug_assertions)]` only, and the kernels then
//! walk raw pointers for `res.len()` / `x.len()` elements. In a release build a *safe* HAL call with
//! operands of different ring degree therefore reads / writes out of bounds (the reference backend,
//! which indexes slices, panics instead).
//!
//! Observed through guard bytes (no sanitizer needed). A panic with intact guards is accepted.
//!
//!   RUSTFLAGS="-C target-feature=+avx2,+fma" cargo test --offline --release -p poulpy-cpu-avx --features enable-avx --test c17_debug_only_guards_avx
#![cfg(feature = "enable-avx")]

use std::panic::{AssertUnwindSafe, catch_unwind};

use poulpy_cpu_avx::FFT64Avx;
use poulpy_cpu_ref::FFT64Ref;
use poulpy_hal::{
    api::{ModuleNew, ScratchFromBytes, VecZnxAddInto, VecZnxLshAssign, VecZnxLshTmpBytes},
    layouts::{Backend, Module, Scratch, VecZnx, ZnxView, ZnxViewMut},
};

const GUARD: usize = 512;

struct Window {
    backing: Vec<u8>,
    len: usize,
    gfill: u8,
}
impl Window {
    fn new(len: usize, gfill: u8) -> Self {
        let mut backing: Vec<u8> = poulpy_hal::alloc_aligned::<u8>(GUARD + len.next_multiple_of(64) + GUARD);
        backing.fill(gfill);
        backing[GUARD..GUARD + len].fill(0);
        Self { backing, len, gfill }
    }
    fn bytes(&mut self) -> &mut [u8] {
        &mut self.backing[GUARD..GUARD + self.len]
    }
    fn modified_guard_bytes(&self) -> usize {
        self.backing[..GUARD].iter().filter(|&&x| x != self.gfill).count()
            + self.backing[GUARD + self.len..].iter().filter(|&&x| x != self.gfill).count()
    }
}

fn quiet<R>(f: impl FnOnce() -> R) -> Result<R, ()> {
    let prev = std::panic::take_hook();
    std::panic::set_hook(Box::new(|_| {}));
    let r = catch_unwind(AssertUnwindSafe(f)).map_err(|_| ());
    std::panic::set_hook(prev);
    r
}

/// `Module(n = 8).vec_znx_lsh_assign` on a vector of degree 16 with the exact scratch the module asks
/// for (`vec_znx_lsh_tmp_bytes()` = 8 i64 of carry): the AVX kernels write `carry[8..16]`.
fn lsh_assign_bigger_operand<B: Backend>() -> (Result<(), ()>, usize)
where
    Module<B>: ModuleNew<B> + VecZnxLshAssign<B> + VecZnxLshTmpBytes,
    Scratch<B>: ScratchFromBytes<B>,
{
    let m: Module<B> = Module::<B>::new(8);
    let mut a = VecZnx::alloc(16, 1, 2);
    for j in 0..2 {
        a.at_mut(0, j).iter_mut().enumerate().for_each(|(i, x)| *x = (1 << 20) + i as i64);
    }
    let mut w = Window::new(m.vec_znx_lsh_tmp_bytes(), 0xEE);
    let r = quiet(|| m.vec_znx_lsh_assign(12, 5, &mut a, 0, Scratch::<B>::from_bytes(w.bytes())));
    (r, w.modified_guard_bytes())
}

#[test]
fn avx_lsh_assign_operand_larger_than_module_writes_past_scratch() {
    let (r, bad) = lsh_assign_bigger_operand::<FFT64Avx>();
    assert_eq!(
        bad,
        0,
        "FFT64Avx: vec_znx_lsh_assign(module n=8, operand n=16) wrote {bad} bytes past the exact-size scratch (call {})",
        if r.is_ok() { "returned normally" } else { "panicked afterwards" }
    );
}

#[test]
fn ref_lsh_assign_operand_larger_than_module_stays_in_bounds() {
    let (r, bad) = lsh_assign_bigger_operand::<FFT64Ref>();
    // the reference kernels index / zip slices: they panic (debug) or truncate (release), never overrun
    let _ = r;
    assert!(bad == 0, "reference backend: {bad} guard bytes modified");
}

/// `vec_znx_add_into(res: n=16, a: n=8, b: n=8)`: the AVX kernel loads 16 i64 from `a` and `b`.
fn add_into_smaller_operands<B: Backend>() -> Vec<Result<Vec<i64>, ()>>
where
    Module<B>: ModuleNew<B> + VecZnxAddInto,
{
    let m: Module<B> = Module::<B>::new(16);
    let mut outs = vec![];
    for gfill in [0x00u8, 0x11, 0x22] {
        let mut aw = Window::new(8 * 8, gfill);
        let mut bw = Window::new(8 * 8, gfill);
        let mut res = VecZnx::alloc(16, 1, 1);
        let r = {
            let mut a = VecZnx::from_data(aw.bytes(), 8, 1, 1);
            a.at_mut(0, 0).fill(1);
            let a = VecZnx::from_data(&*a.data, 8, 1, 1);
            let mut b = VecZnx::from_data(bw.bytes(), 8, 1, 1);
            b.at_mut(0, 0).fill(2);
            let b = VecZnx::from_data(&*b.data, 8, 1, 1);
            quiet(|| m.vec_znx_add_into(&mut res, 0, &a, 0, &b, 0))
        };
        outs.push(r.map(|_| res.at(0, 0).to_vec()));
    }
    outs
}

#[test]
fn avx_add_into_degree_mismatch_reads_past_operands() {
    let outs = add_into_smaller_operands::<FFT64Avx>();
    if outs.iter().all(|o| o.is_err()) {
        return; // rejected: fine
    }
    assert!(
        outs[0] == outs[1] && outs[0] == outs[2],
        "FFT64Avx: vec_znx_add_into(res n=16, a n=8, b n=8) returned values that change with the bytes located after `a`/`b`: {:?}",
        outs.iter().map(|o| o.as_ref().map(|v| v[8..].to_vec())).collect::<Vec<_>>()
    );
}

#[test]
fn ref_add_into_degree_mismatch_is_rejected() {
    let outs = add_into_smaller_operands::<FFT64Ref>();
    assert!(outs.iter().all(|o| o.is_err()), "reference backend: expected a panic");
}
