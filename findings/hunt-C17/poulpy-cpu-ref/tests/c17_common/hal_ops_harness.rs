// Shared harness body, `include!`d by poulpy-cpu-ref/tests/c17_hal_ops.rs and poulpy-cpu-avx/tests/c17_hal_ops_avx.rs.
// See the header of c17_hal_ops.rs for what is checked.

use std::{
    cell::RefCell,
    collections::BTreeMap,
    panic::{AssertUnwindSafe, catch_unwind},
    sync::Once,
};

use poulpy_hal::{
    api::*,
    layouts::{
        Backend, DataViewMut, MatZnx, Module, ScalarZnx, Scratch, VecZnx, VecZnxBig, VecZnxDft, ZnxView,
    },
    source::Source,
};

thread_local! { static LAST_PANIC: RefCell<String> = const { RefCell::new(String::new()) }; }
static HOOK: Once = Once::new();

fn install_hook() {
    HOOK.call_once(|| {
        std::panic::set_hook(Box::new(|info| {
            let msg = if let Some(s) = info.payload().downcast_ref::<&str>() {
                s.to_string()
            } else if let Some(s) = info.payload().downcast_ref::<String>() {
                s.clone()
            } else {
                "<non-string panic>".to_string()
            };
            let loc = info.location().map(|l| format!("{}:{}", l.file(), l.line())).unwrap_or_default();
            LAST_PANIC.with(|l| *l.borrow_mut() = format!("{loc}: {}", msg.lines().next().unwrap_or("")));
        }));
    });
}

/// Collects failures: key = "op | reason", value = (count, first shape)
#[derive(Default)]
struct Report(BTreeMap<String, (usize, String)>);
impl Report {
    fn add(&mut self, op: &str, reason: String, shape: String) {
        // group by operation, reason and the leading "n=.. cols=.." part of the shape
        let lead: String = shape.split(' ').filter(|t| t.starts_with("n=") || t.starts_with("cols=")).collect::<Vec<_>>().join(" ");
        let e = self.0.entry(format!("{op} [{lead}] | {reason}")).or_insert((0, shape));
        e.0 += 1;
    }
    fn finish(self, title: &str) {
        if self.0.is_empty() {
            return;
        }
        let mut s = format!("\n==== {title}: {} distinct failure(s) ====\n", self.0.len());
        for (k, (c, shape)) in &self.0 {
            s += &format!("  [{c:4}x] {k}\n          first at {shape}\n");
        }
        println!("{s}");
        panic!("{title}: failures, see report above");
    }
}

/// A scratch window of exactly `len` bytes, 64-byte aligned, surrounded by guard bytes.
struct Window {
    backing: Vec<u8>,
    len: usize,
}
const GUARD: usize = 128;
impl Window {
    fn new(len: usize, fill: u8) -> Self {
        let mut backing: Vec<u8> = poulpy_hal::alloc_aligned::<u8>(GUARD + len.next_multiple_of(64) + GUARD);
        backing.fill(0xEE);
        backing[GUARD..GUARD + len].fill(fill);
        Self { backing, len }
    }
    fn bytes(&mut self) -> &mut [u8] {
        &mut self.backing[GUARD..GUARD + self.len]
    }
    fn guards_ok(&self) -> bool {
        self.backing[..GUARD].iter().all(|&x| x == 0xEE) && self.backing[GUARD + self.len..].iter().all(|&x| x == 0xEE)
    }
}

fn col_bytes<V: ZnxView>(v: &V, col: usize) -> Vec<u8> {
    let mut out = vec![];
    for j in 0..v.size() {
        out.extend_from_slice(bytemuck::cast_slice(v.at(col, j)));
    }
    out
}

const FILLS: [(u8, u8); 3] = [(0x00, 0x00), (0xFF, 0xFF), (0x5A, 0xC3)];

/// Runs `f(scratch_fill, res_fill)` for the three fills; `f` returns the bytes that must be
/// independent of the fills (the receiver column) and whether the guards survived.
fn run3(rep: &mut Report, op: &str, shape: &str, mut f: impl FnMut(u8, u8) -> (Vec<u8>, bool)) {
    let mut outs: Vec<Vec<u8>> = vec![];
    for (sf, rf) in FILLS {
        match catch_unwind(AssertUnwindSafe(|| f(sf, rf))) {
            Ok((bytes, guards)) => {
                if !guards {
                    rep.add(op, "guard bytes around the exact-size scratch window were modified".into(), shape.into());
                }
                outs.push(bytes)
            }
            Err(_) => {
                let m = LAST_PANIC.with(|l| l.borrow().clone());
                rep.add(op, format!("panic: {m}"), shape.into());
                return;
            }
        }
    }
    if outs[0] != outs[1] || outs[0] != outs[2] {
        rep.add(
            op,
            "receiver column depends on previous receiver contents and/or scratch contents".into(),
            shape.into(),
        );
    }
}

/// `C17_TIGHT=1`: every operand is an exact-size heap allocation (`vec![..; bytes]`, 16-byte aligned by the
/// system allocator, NOT 64-byte aligned, no padding, no spare limb) so that AddressSanitizer sees any access
/// past the end of an operand. Default: 64-byte aligned, padded, with a spare limb (set_size history).
fn tight() -> bool {
    std::env::var("C17_TIGHT").is_ok()
}

fn buf(bytes: usize, fill: u8) -> Vec<u8> {
    if tight() && bytes > 0 {
        vec![fill; bytes]
    } else {
        let mut b = poulpy_hal::alloc_aligned::<u8>(bytes);
        b.fill(fill);
        b
    }
}

fn rand_vec(n: usize, cols: usize, size: usize, max_size: usize, seed: u8) -> VecZnx<Vec<u8>> {
    // allocated with max_size limbs, filled, then shrunk to `size` (history: set_size within capacity)
    let cap = if tight() { size } else { max_size.max(size) };
    let mut v = VecZnx::from_data(buf(VecZnx::bytes_of(n, cols, cap), 0), n, cols, cap);
    let mut s = Source::new([seed; 32]);
    use poulpy_hal::layouts::FillUniform;
    v.fill_uniform(10, &mut s);
    v.set_size(size);
    v
}

macro_rules! backend_suite {
    ($modname:ident, $B:ty, $ns:expr, $ns_dft:expr) => {
        mod $modname {
            use super::*;
            type B = $B;

            fn module(n: usize) -> Module<B> {
                Module::<B>::new(n as u64)
            }

            fn scratch<'a>(w: &'a mut Window) -> &'a mut Scratch<B> {
                Scratch::<B>::from_bytes(w.bytes())
            }

            fn dirty_vec(n: usize, cols: usize, size: usize, fill: u8) -> VecZnx<Vec<u8>> {
                let cap = if tight() { size } else { size + 1 };
                let mut v = VecZnx::from_data(buf(VecZnx::bytes_of(n, cols, cap), fill), n, cols, cap);
                v.set_size(size);
                v
            }
            fn dirty_big(n: usize, cols: usize, size: usize, fill: u8) -> VecZnxBig<Vec<u8>, B> {
                let mut v: VecZnxBig<Vec<u8>, B> = VecZnxBig::from_data(
                    buf(B::bytes_of_vec_znx_big(n, cols, size), fill),
                    n,
                    cols,
                    size,
                );
                v.data_mut().fill(fill);
                v
            }
            fn dirty_dft(n: usize, cols: usize, size: usize, fill: u8) -> VecZnxDft<Vec<u8>, B> {
                let mut v: VecZnxDft<Vec<u8>, B> = VecZnxDft::from_data(
                    buf(B::bytes_of_vec_znx_dft(n, cols, size), fill),
                    n,
                    cols,
                    size,
                );
                v.data_mut().fill(fill);
                v
            }
            /// a "valid" DFT operand: forward transform of a random small vector
            fn rand_dft(m: &Module<B>, cols: usize, size: usize, seed: u8) -> VecZnxDft<Vec<u8>, B> {
                let n = m.n();
                let a = rand_vec(n, cols, size, size, seed);
                let mut d = dirty_dft(n, cols, size, 0);
                for c in 0..cols {
                    m.vec_znx_dft_apply(1, 0, &mut d, c, &a, c);
                }
                d
            }
            fn rand_big(m: &Module<B>, cols: usize, size: usize, seed: u8) -> VecZnxBig<Vec<u8>, B> {
                let n = m.n();
                let a = rand_vec(n, cols, size, size, seed);
                let mut d = dirty_big(n, cols, size, 0);
                for c in 0..cols {
                    m.vec_znx_big_from_small(&mut d, c, &a, c);
                }
                d
            }

            // ───────────── vec_znx family ─────────────
            #[test]
            fn vec_znx_ops() {
                install_hook();
                let mut rep = Report::default();
                let base2k = 12usize;
                for &n in $ns.iter() {
                    let m = module(n);
                    for cols in 1..=3usize {
                        for rs in 0..=3usize {
                            for as_ in 0..=3usize {
                                for bs in [0usize, 2] {
                                    let (rc, ac, bc) = (cols - 1, 0usize, cols / 2);
                                    let shape = format!("n={n} cols={cols} res_size={rs} a_size={as_} b_size={bs} res_col={rc} a_col={ac} b_col={bc}");
                                    let a = rand_vec(n, cols, as_, 3, 1);
                                    let b = rand_vec(n, cols, bs, 3, 2);

                                    macro_rules! oop {
                                        ($name:expr, |$r:ident| $call:expr) => {
                                            run3(&mut rep, $name, &shape, |_sf, rf| {
                                                let mut $r = dirty_vec(n, cols, rs, rf);
                                                $call;
                                                (col_bytes(&$r, rc), true)
                                            });
                                        };
                                    }
                                    macro_rules! oop_s {
                                        ($name:expr, $tmp:expr, |$r:ident, $s:ident| $call:expr) => {
                                            run3(&mut rep, $name, &shape, |sf, rf| {
                                                let mut w = Window::new($tmp, sf);
                                                let mut $r = dirty_vec(n, cols, rs, rf);
                                                {
                                                    let $s = scratch(&mut w);
                                                    $call;
                                                }
                                                (col_bytes(&$r, rc), w.guards_ok())
                                            });
                                        };
                                    }
                                    // in-place with scratch: receiver = copy of a (resized to rs), only scratch is dirty
                                    macro_rules! inp_s {
                                        ($name:expr, $tmp:expr, |$r:ident, $s:ident| $call:expr) => {
                                            run3(&mut rep, $name, &shape, |sf, _rf| {
                                                let mut w = Window::new($tmp, sf);
                                                let mut $r = rand_vec(n, cols, rs, 3, 7);
                                                {
                                                    let $s = scratch(&mut w);
                                                    $call;
                                                }
                                                (col_bytes(&$r, rc), w.guards_ok())
                                            });
                                        };
                                    }

                                    if bs == 0 {
                                        oop!("vec_znx_copy", |r| m.vec_znx_copy(&mut r, rc, &a, ac));
                                        oop!("vec_znx_negate", |r| m.vec_znx_negate(&mut r, rc, &a, ac));
                                        for p in [0i64, 1, -1, n as i64, 2 * n as i64 + 1, -(3 * n as i64)] {
                                            oop!("vec_znx_rotate", |r| m.vec_znx_rotate(p, &mut r, rc, &a, ac));
                                            oop!("vec_znx_mul_xp_minus_one", |r| m.vec_znx_mul_xp_minus_one(p, &mut r, rc, &a, ac));
                                            inp_s!("vec_znx_rotate_assign", m.vec_znx_rotate_assign_tmp_bytes(), |r, s| m
                                                .vec_znx_rotate_assign(p, &mut r, rc, s));
                                            inp_s!(
                                                "vec_znx_mul_xp_minus_one_assign",
                                                m.vec_znx_mul_xp_minus_one_assign_tmp_bytes(),
                                                |r, s| m.vec_znx_mul_xp_minus_one_assign(p, &mut r, rc, s)
                                            );
                                        }
                                        for p in [1i64, -1, 3, 5, -5, 2 * n as i64 - 1, 2 * n as i64 + 1] {
                                            oop!("vec_znx_automorphism", |r| m.vec_znx_automorphism(p, &mut r, rc, &a, ac));
                                            inp_s!(
                                                "vec_znx_automorphism_assign",
                                                m.vec_znx_automorphism_assign_tmp_bytes(),
                                                |r, s| m.vec_znx_automorphism_assign(p, &mut r, rc, s)
                                            );
                                        }
                                        for off in [0i64, 1, -1, base2k as i64, -(base2k as i64), 40, -40] {
                                            for (rb, ab) in [(base2k, base2k), (base2k, 7), (7, base2k)] {
                                                oop_s!("vec_znx_normalize", m.vec_znx_normalize_tmp_bytes(), |r, s| m
                                                    .vec_znx_normalize(&mut r, rb, off, rc, &a, ab, ac, s));
                                            }
                                        }
                                        inp_s!("vec_znx_normalize_assign", m.vec_znx_normalize_tmp_bytes(), |r, s| m
                                            .vec_znx_normalize_assign(base2k, &mut r, rc, s));
                                        for k in [0usize, 1, base2k - 1, base2k, base2k + 1, 3 * base2k, 5 * base2k + 3] {
                                            oop_s!("vec_znx_lsh", m.vec_znx_lsh_tmp_bytes(), |r, s| m
                                                .vec_znx_lsh(base2k, k, &mut r, rc, &a, ac, s));
                                            oop_s!("vec_znx_rsh", m.vec_znx_rsh_tmp_bytes(), |r, s| m
                                                .vec_znx_rsh(base2k, k, &mut r, rc, &a, ac, s));
                                            inp_s!("vec_znx_lsh_assign", m.vec_znx_lsh_tmp_bytes(), |r, s| m
                                                .vec_znx_lsh_assign(base2k, k, &mut r, rc, s));
                                            inp_s!("vec_znx_rsh_assign", m.vec_znx_rsh_tmp_bytes(), |r, s| m
                                                .vec_znx_rsh_assign(base2k, k, &mut r, rc, s));
                                            inp_s!("vec_znx_lsh_add_into", m.vec_znx_lsh_tmp_bytes(), |r, s| m
                                                .vec_znx_lsh_add_into(base2k, k, &mut r, rc, &a, ac, s));
                                            inp_s!("vec_znx_rsh_add_into", m.vec_znx_rsh_tmp_bytes(), |r, s| m
                                                .vec_znx_rsh_add_into(base2k, k, &mut r, rc, &a, ac, s));
                                            inp_s!("vec_znx_lsh_sub", m.vec_znx_lsh_tmp_bytes(), |r, s| m
                                                .vec_znx_lsh_sub(base2k, k, &mut r, rc, &a, ac, s));
                                            inp_s!("vec_znx_rsh_sub", m.vec_znx_rsh_tmp_bytes(), |r, s| m
                                                .vec_znx_rsh_sub(base2k, k, &mut r, rc, &a, ac, s));
                                        }
                                        // in-place, no scratch
                                        run3(&mut rep, "vec_znx_add_assign", &shape, |_, _| {
                                            let mut r = rand_vec(n, cols, rs, 3, 7);
                                            m.vec_znx_add_assign(&mut r, rc, &a, ac);
                                            (col_bytes(&r, rc), true)
                                        });
                                        run3(&mut rep, "vec_znx_sub_assign", &shape, |_, _| {
                                            let mut r = rand_vec(n, cols, rs, 3, 7);
                                            m.vec_znx_sub_assign(&mut r, rc, &a, ac);
                                            (col_bytes(&r, rc), true)
                                        });
                                        run3(&mut rep, "vec_znx_sub_negate_assign", &shape, |_, _| {
                                            let mut r = rand_vec(n, cols, rs, 3, 7);
                                            m.vec_znx_sub_negate_assign(&mut r, rc, &a, ac);
                                            (col_bytes(&r, rc), true)
                                        });
                                        run3(&mut rep, "vec_znx_negate_assign", &shape, |_, _| {
                                            let mut r = rand_vec(n, cols, rs, 3, 7);
                                            m.vec_znx_negate_assign(&mut r, rc);
                                            (col_bytes(&r, rc), true)
                                        });
                                        oop!("vec_znx_zero", |r| m.vec_znx_zero(&mut r, rc));
                                    }
                                    oop!("vec_znx_add_into", |r| m.vec_znx_add_into(&mut r, rc, &a, ac, &b, bc));
                                    oop!("vec_znx_sub", |r| m.vec_znx_sub(&mut r, rc, &a, ac, &b, bc));

                                    // scalar forms: limb index inside the vector operand
                                    let sc = {
                                        let mut s = ScalarZnx::alloc(n, cols);
                                        let mut src = Source::new([3u8; 32]);
                                        use poulpy_hal::layouts::FillUniform;
                                        s.fill_uniform(10, &mut src);
                                        s
                                    };
                                    if bs > 0 {
                                        for limb in 0..bs.min(rs) {
                                            oop!("vec_znx_add_scalar_into", |r| m
                                                .vec_znx_add_scalar_into(&mut r, rc, &sc, ac, &b, bc, limb));
                                            oop!("vec_znx_sub_scalar", |r| m.vec_znx_sub_scalar(&mut r, rc, &sc, ac, &b, bc, limb));
                                        }
                                    }
                                }
                            }
                        }
                    }
                }
                rep.finish(concat!(stringify!($modname), "::vec_znx_ops"));
            }

            // ───────────── ring switching / split / merge ─────────────
            #[test]
            fn vec_znx_ring_ops() {
                install_hook();
                let mut rep = Report::default();
                for &n in $ns.iter() {
                    let m = module(n);
                    for &n_other in [1usize, 2, 4, 8, 16, 32].iter() {
                        for rs in 0..=3usize {
                            for as_ in 0..=3usize {
                                let shape = format!("module n={n} res.n={n_other} a.n={n} res_size={rs} a_size={as_}");
                                let a = rand_vec(n, 2, as_, 3, 1);
                                run3(&mut rep, "vec_znx_switch_ring(res.n != a.n)", &shape, |_, rf| {
                                    let mut r = dirty_vec(n_other, 2, rs, rf);
                                    m.vec_znx_switch_ring(&mut r, 1, &a, 0);
                                    (col_bytes(&r, 1), true)
                                });
                                let a2 = rand_vec(n_other, 2, as_, 3, 1);
                                let shape = format!("module n={n} res.n={n} a.n={n_other} res_size={rs} a_size={as_}");
                                run3(&mut rep, "vec_znx_switch_ring(res.n != a.n)", &shape, |_, rf| {
                                    let mut r = dirty_vec(n, 2, rs, rf);
                                    m.vec_znx_switch_ring(&mut r, 1, &a2, 0);
                                    (col_bytes(&r, 1), true)
                                });
                            }
                        }
                    }
                    // split / merge : a has degree n, pieces have degree n / parts
                    for parts_log in 1..=3u32 {
                        let parts = 1usize << parts_log;
                        if parts > n {
                            continue;
                        }
                        let n_small = n / parts;
                        for rs in 0..=3usize {
                            for as_ in 0..=3usize {
                                let shape = format!("n={n} parts={parts} piece.n={n_small} piece_size={rs} big_size={as_}");
                                let a = rand_vec(n, 2, as_, 3, 1);
                                run3(&mut rep, "vec_znx_split_ring", &shape, |sf, rf| {
                                    let mut w = Window::new(m.vec_znx_split_ring_tmp_bytes(), sf);
                                    let mut pieces: Vec<VecZnx<Vec<u8>>> =
                                        (0..parts).map(|_| dirty_vec(n_small, 2, rs, rf)).collect();
                                    m.vec_znx_split_ring(&mut pieces, 1, &a, 0, scratch(&mut w));
                                    let mut out = vec![];
                                    for p in &pieces {
                                        out.extend(col_bytes(p, 1));
                                    }
                                    (out, w.guards_ok())
                                });
                                let pieces: Vec<VecZnx<Vec<u8>>> =
                                    (0..parts).map(|i| rand_vec(n_small, 2, rs, 3, i as u8)).collect();
                                run3(&mut rep, "vec_znx_merge_rings", &shape, |sf, rf| {
                                    let mut w = Window::new(m.vec_znx_merge_rings_tmp_bytes(), sf);
                                    let mut r = dirty_vec(n, 2, as_, rf);
                                    m.vec_znx_merge_rings(&mut r, 1, &pieces, 0, scratch(&mut w));
                                    (col_bytes(&r, 1), w.guards_ok())
                                });
                            }
                        }
                    }
                }
                rep.finish(concat!(stringify!($modname), "::vec_znx_ring_ops"));
            }

            // ───────────── vec_znx_big family ─────────────
            #[test]
            fn vec_znx_big_ops() {
                install_hook();
                let mut rep = Report::default();
                let base2k = 12usize;
                for &n in $ns.iter() {
                    let m = module(n);
                    for cols in 1..=3usize {
                        for rs in 0..=3usize {
                            for as_ in 0..=3usize {
                                for bs in [0usize, 2] {
                                    let (rc, ac, bc) = (cols - 1, 0usize, cols / 2);
                                    let shape = format!("n={n} cols={cols} res_size={rs} a_size={as_} b_size={bs} res_col={rc}");
                                    let a_small = rand_vec(n, cols, as_, 3, 1);
                                    let b_small = rand_vec(n, cols, bs, 3, 2);
                                    let a_big = rand_big(&m, cols, as_, 1);
                                    let b_big = rand_big(&m, cols, bs, 2);
                                    macro_rules! oop {
                                        ($name:expr, |$r:ident| $call:expr) => {
                                            run3(&mut rep, $name, &shape, |_sf, rf| {
                                                let mut $r = dirty_big(n, cols, rs, rf);
                                                $call;
                                                (col_bytes(&$r, rc), true)
                                            });
                                        };
                                    }
                                    macro_rules! inp {
                                        ($name:expr, |$r:ident| $call:expr) => {
                                            run3(&mut rep, $name, &shape, |_sf, _rf| {
                                                let mut $r = rand_big(&m, cols, rs, 9);
                                                $call;
                                                (col_bytes(&$r, rc), true)
                                            });
                                        };
                                    }
                                    if bs == 0 {
                                        oop!("vec_znx_big_from_small", |r| m.vec_znx_big_from_small(&mut r, rc, &a_small, ac));
                                        oop!("vec_znx_big_negate", |r| m.vec_znx_big_negate(&mut r, rc, &a_big, ac));
                                        inp!("vec_znx_big_negate_assign", |r| m.vec_znx_big_negate_assign(&mut r, rc));
                                        inp!("vec_znx_big_add_assign", |r| m.vec_znx_big_add_assign(&mut r, rc, &a_big, ac));
                                        inp!("vec_znx_big_sub_assign", |r| m.vec_znx_big_sub_assign(&mut r, rc, &a_big, ac));
                                        inp!("vec_znx_big_sub_negate_assign", |r| m
                                            .vec_znx_big_sub_negate_assign(&mut r, rc, &a_big, ac));
                                        inp!("vec_znx_big_add_small_assign", |r| m
                                            .vec_znx_big_add_small_assign(&mut r, rc, &a_small, ac));
                                        inp!("vec_znx_big_sub_small_assign", |r| m
                                            .vec_znx_big_sub_small_assign(&mut r, rc, &a_small, ac));
                                        inp!("vec_znx_big_sub_small_negate_assign", |r| m
                                            .vec_znx_big_sub_small_negate_assign(&mut r, rc, &a_small, ac));
                                        for p in [1i64, -1, 3, 5, -5, 2 * n as i64 - 1, 2 * n as i64 + 1] {
                                            oop!("vec_znx_big_automorphism", |r| m
                                                .vec_znx_big_automorphism(p, &mut r, rc, &a_big, ac));
                                            run3(&mut rep, "vec_znx_big_automorphism_assign", &shape, |sf, _| {
                                                let mut w = Window::new(m.vec_znx_big_automorphism_assign_tmp_bytes(), sf);
                                                let mut r = rand_big(&m, cols, rs, 9);
                                                m.vec_znx_big_automorphism_assign(p, &mut r, rc, scratch(&mut w));
                                                (col_bytes(&r, rc), w.guards_ok())
                                            });
                                        }
                                        // big -> small normalisation into a dirty receiver, exact scratch
                                        for off in [0i64, 1, -1, base2k as i64, -(base2k as i64), 40, -40] {
                                            for (rb, ab) in [(base2k, base2k), (base2k, 7), (7, base2k)] {
                                                run3(&mut rep, "vec_znx_big_normalize", &shape, |sf, rf| {
                                                    let mut w = Window::new(m.vec_znx_big_normalize_tmp_bytes(), sf);
                                                    let mut r = dirty_vec(n, cols, rs, rf);
                                                    m.vec_znx_big_normalize(&mut r, rb, off, rc, &a_big, ab, ac, scratch(&mut w));
                                                    (col_bytes(&r, rc), w.guards_ok())
                                                });
                                            }
                                        }
                                    }
                                    oop!("vec_znx_big_add_into", |r| m.vec_znx_big_add_into(&mut r, rc, &a_big, ac, &b_big, bc));
                                    oop!("vec_znx_big_sub", |r| m.vec_znx_big_sub(&mut r, rc, &a_big, ac, &b_big, bc));
                                    oop!("vec_znx_big_add_small_into", |r| m
                                        .vec_znx_big_add_small_into(&mut r, rc, &a_big, ac, &b_small, bc));
                                    oop!("vec_znx_big_sub_small_a", |r| m
                                        .vec_znx_big_sub_small_a(&mut r, rc, &a_small, ac, &b_big, bc));
                                    oop!("vec_znx_big_sub_small_b", |r| m
                                        .vec_znx_big_sub_small_b(&mut r, rc, &a_big, ac, &b_small, bc));
                                }
                            }
                        }
                    }
                }
                rep.finish(concat!(stringify!($modname), "::vec_znx_big_ops"));
            }

            // ───────────── vec_znx_dft family ─────────────
            #[test]
            fn vec_znx_dft_ops() {
                install_hook();
                let mut rep = Report::default();
                for &n in $ns_dft.iter() {
                    let m = module(n);
                    for cols in 1..=3usize {
                        for rs in 0..=3usize {
                            for as_ in 0..=3usize {
                                let (rc, ac, bc) = (cols - 1, 0usize, cols / 2);
                                let shape = format!("n={n} cols={cols} res_size={rs} a_size={as_} res_col={rc}");
                                let a_small = rand_vec(n, cols, as_, 3, 1);
                                let a_dft = rand_dft(&m, cols, as_, 1);
                                let b_dft = rand_dft(&m, cols, 2, 2);
                                macro_rules! oop {
                                    ($name:expr, |$r:ident| $call:expr) => {
                                        run3(&mut rep, $name, &shape, |_sf, rf| {
                                            let mut $r = dirty_dft(n, cols, rs, rf);
                                            $call;
                                            (col_bytes(&$r, rc), true)
                                        });
                                    };
                                }
                                macro_rules! inp {
                                    ($name:expr, |$r:ident| $call:expr) => {
                                        run3(&mut rep, $name, &shape, |_sf, _rf| {
                                            let mut $r = rand_dft(&m, cols, rs, 9);
                                            $call;
                                            (col_bytes(&$r, rc), true)
                                        });
                                    };
                                }
                                for step in 1..=3usize {
                                    for offset in 0..=3usize {
                                        oop!("vec_znx_dft_apply", |r| m.vec_znx_dft_apply(step, offset, &mut r, rc, &a_small, ac));
                                        oop!("vec_znx_dft_copy", |r| m.vec_znx_dft_copy(step, offset, &mut r, rc, &a_dft, ac));
                                    }
                                }
                                oop!("vec_znx_dft_zero", |r| m.vec_znx_dft_zero(&mut r, rc));
                                oop!("vec_znx_dft_add_into", |r| m.vec_znx_dft_add_into(&mut r, rc, &a_dft, ac, &b_dft, bc));
                                oop!("vec_znx_dft_sub", |r| m.vec_znx_dft_sub(&mut r, rc, &a_dft, ac, &b_dft, bc));
                                inp!("vec_znx_dft_add_assign", |r| m.vec_znx_dft_add_assign(&mut r, rc, &a_dft, ac));
                                inp!("vec_znx_dft_sub_assign", |r| m.vec_znx_dft_sub_assign(&mut r, rc, &a_dft, ac));
                                inp!("vec_znx_dft_sub_negate_assign", |r| m.vec_znx_dft_sub_negate_assign(&mut r, rc, &a_dft, ac));
                                for sc in [0i64, 1, -1, 2, -3] {
                                    inp!("vec_znx_dft_add_scaled_assign", |r| m
                                        .vec_znx_dft_add_scaled_assign(&mut r, rc, &a_dft, ac, sc));
                                }
                                // inverse transforms into a dirty big receiver
                                run3(&mut rep, "vec_znx_idft_apply", &shape, |sf, rf| {
                                    let mut w = Window::new(m.vec_znx_idft_apply_tmp_bytes(), sf);
                                    let mut r = dirty_big(n, cols, rs, rf);
                                    m.vec_znx_idft_apply(&mut r, rc, &a_dft, ac, scratch(&mut w));
                                    (col_bytes(&r, rc), w.guards_ok())
                                });
                                run3(&mut rep, "vec_znx_idft_apply_tmpa", &shape, |_sf, rf| {
                                    let mut a = rand_dft(&m, cols, as_, 1);
                                    let mut r = dirty_big(n, cols, rs, rf);
                                    m.vec_znx_idft_apply_tmpa(&mut r, rc, &mut a, ac);
                                    (col_bytes(&r, rc), true)
                                });
                                run3(&mut rep, "vec_znx_idft_apply_consume", &shape, |_sf, _rf| {
                                    let a = rand_dft(&m, cols, as_, 1);
                                    let r = m.vec_znx_idft_apply_consume(a);
                                    (col_bytes(&r, ac), true)
                                });
                                // consume on a view carved out of scratch and on a set_size-shrunk object
                                run3(&mut rep, "vec_znx_idft_apply_consume(scratch view)", &shape, |sf, _rf| {
                                    let mut w = Window::new(m.bytes_of_vec_znx_dft(cols, as_), sf);
                                    let s = scratch(&mut w);
                                    let (mut d, _) = s.take_vec_znx_dft::<_, B>(&m, cols, as_);
                                    for c in 0..cols {
                                        m.vec_znx_dft_apply(1, 0, &mut d, c, &a_small, c);
                                    }
                                    let r = m.vec_znx_idft_apply_consume(d);
                                    let out = col_bytes(&r, ac);
                                    drop(r);
                                    (out, w.guards_ok())
                                });
                            }
                        }
                    }
                }
                rep.finish(concat!(stringify!($modname), "::vec_znx_dft_ops"));
            }

            // ───────────── svp ─────────────
            #[test]
            fn svp_ops() {
                install_hook();
                let mut rep = Report::default();
                for &n in $ns_dft.iter() {
                    let m = module(n);
                    for cols in 1..=3usize {
                        for rs in 0..=3usize {
                            for as_ in 0..=3usize {
                                let (rc, ac, bc) = (cols - 1, 0usize, cols / 2);
                                let shape = format!("n={n} cols={cols} res_size={rs} b_size={as_} res_col={rc}");
                                let sc = {
                                    let mut s = ScalarZnx::alloc(n, cols);
                                    let mut src = Source::new([3u8; 32]);
                                    use poulpy_hal::layouts::FillUniform;
                                    s.fill_uniform(10, &mut src);
                                    s
                                };
                                let b_small = rand_vec(n, cols, as_, 3, 1);
                                let b_dft = rand_dft(&m, cols, as_, 1);
                                // prepare into a dirty SvpPPol
                                let mut outs = vec![];
                                for f in [0x00u8, 0xFF, 0x5A] {
                                    let r = catch_unwind(AssertUnwindSafe(|| {
                                        let mut p = m.svp_ppol_alloc(cols);
                                        p.data_mut().as_mut().fill(f);
                                        m.svp_prepare(&mut p, ac, &sc, bc);
                                        col_bytes(&p, ac)
                                    }));
                                    match r {
                                        Ok(b) => outs.push(b),
                                        Err(_) => {
                                            rep.add("svp_prepare", format!("panic: {}", LAST_PANIC.with(|l| l.borrow().clone())), shape.clone());
                                            break;
                                        }
                                    }
                                }
                                if outs.len() == 3 && (outs[0] != outs[1] || outs[0] != outs[2]) {
                                    rep.add("svp_prepare", "result depends on previous receiver contents".into(), shape.clone());
                                }
                                let mut p = m.svp_ppol_alloc(cols);
                                for c in 0..cols {
                                    m.svp_prepare(&mut p, c, &sc, c);
                                }
                                run3(&mut rep, "svp_apply_dft", &shape, |_, rf| {
                                    let mut r = dirty_dft(n, cols, rs, rf);
                                    m.svp_apply_dft(&mut r, rc, &p, ac, &b_small, bc);
                                    (col_bytes(&r, rc), true)
                                });
                                run3(&mut rep, "svp_apply_dft_to_dft", &shape, |_, rf| {
                                    let mut r = dirty_dft(n, cols, rs, rf);
                                    m.svp_apply_dft_to_dft(&mut r, rc, &p, ac, &b_dft, bc);
                                    (col_bytes(&r, rc), true)
                                });
                                run3(&mut rep, "svp_apply_dft_to_dft_assign", &shape, |_, _| {
                                    let mut r = rand_dft(&m, cols, rs, 9);
                                    m.svp_apply_dft_to_dft_assign(&mut r, rc, &p, ac);
                                    (col_bytes(&r, rc), true)
                                });
                            }
                        }
                    }
                }
                rep.finish(concat!(stringify!($modname), "::svp_ops"));
            }

            // ───────────── vmp ─────────────
            #[test]
            fn vmp_ops() {
                install_hook();
                let mut rep = Report::default();
                for &n in $ns_dft.iter() {
                    let m = module(n);
                    for rows in 1..=3usize {
                        for cols_in in 1..=2usize {
                            for cols_out in 1..=3usize {
                                for psize in 1..=3usize {
                                    let mut mat = MatZnx::alloc(n, rows, cols_in, cols_out, psize);
                                    {
                                        let mut src = Source::new([4u8; 32]);
                                        use poulpy_hal::layouts::FillUniform;
                                        mat.fill_uniform(10, &mut src);
                                    }
                                    let shape0 = format!("n={n} rows={rows} cols_in={cols_in} cols_out={cols_out} pmat_size={psize}");
                                    // prepare into dirty pmat with exact dirty scratch
                                    let mut outs = vec![];
                                    for f in [0x00u8, 0xFF, 0x5A] {
                                        let r = catch_unwind(AssertUnwindSafe(|| {
                                            let mut w = Window::new(m.vmp_prepare_tmp_bytes(rows, cols_in, cols_out, psize), f);
                                            let mut p = m.vmp_pmat_alloc(rows, cols_in, cols_out, psize);
                                            p.data_mut().as_mut().fill(f);
                                            m.vmp_prepare(&mut p, &mat, scratch(&mut w));
                                            (bytemuck::cast_slice::<_, u8>(p.raw()).to_vec(), w.guards_ok())
                                        }));
                                        match r {
                                            Ok((b, g)) => {
                                                if !g {
                                                    rep.add("vmp_prepare", "guards modified".into(), shape0.clone());
                                                }
                                                outs.push(b)
                                            }
                                            Err(_) => {
                                                rep.add(
                                                    "vmp_prepare",
                                                    format!("panic: {}", LAST_PANIC.with(|l| l.borrow().clone())),
                                                    shape0.clone(),
                                                );
                                                break;
                                            }
                                        }
                                    }
                                    if outs.len() == 3 && (outs[0] != outs[1] || outs[0] != outs[2]) {
                                        rep.add(
                                            "vmp_prepare",
                                            "prepared matrix depends on previous receiver / scratch contents".into(),
                                            shape0.clone(),
                                        );
                                    }
                                    if outs.len() < 3 {
                                        continue;
                                    }
                                    let mut p = m.vmp_pmat_alloc(rows, cols_in, cols_out, psize);
                                    {
                                        let mut w = Window::new(m.vmp_prepare_tmp_bytes(rows, cols_in, cols_out, psize), 0);
                                        m.vmp_prepare(&mut p, &mat, scratch(&mut w));
                                    }
                                    for as_ in 0..=4usize {
                                        for rs in 0..=4usize {
                                            let shape = format!("{shape0} a_size={as_} res_size={rs}");
                                            let a_small = rand_vec(n, cols_in, as_, 4, 1);
                                            let a_dft = rand_dft(&m, cols_in, as_, 1);
                                            run3(&mut rep, "vmp_apply_dft", &shape, |sf, rf| {
                                                let mut w = Window::new(
                                                    m.vmp_apply_dft_tmp_bytes(rs, as_, rows, cols_in, cols_out, psize),
                                                    sf,
                                                );
                                                let mut r = dirty_dft(n, cols_out, rs, rf);
                                                m.vmp_apply_dft(&mut r, &a_small, &p, scratch(&mut w));
                                                (bytemuck::cast_slice::<_, u8>(r.raw()).to_vec(), w.guards_ok())
                                            });
                                            for lo in 0..=4usize {
                                                let shape = format!("{shape} limb_offset={lo}");
                                                run3(&mut rep, "vmp_apply_dft_to_dft", &shape, |sf, rf| {
                                                    let mut w = Window::new(
                                                        m.vmp_apply_dft_to_dft_tmp_bytes(rs, as_, rows, cols_in, cols_out, psize),
                                                        sf,
                                                    );
                                                    let mut r = dirty_dft(n, cols_out, rs, rf);
                                                    m.vmp_apply_dft_to_dft(&mut r, &a_dft, &p, lo, scratch(&mut w));
                                                    (bytemuck::cast_slice::<_, u8>(r.raw()).to_vec(), w.guards_ok())
                                                });
                                            }
                                        }
                                    }
                                }
                            }
                        }
                    }
                }
                rep.finish(concat!(stringify!($modname), "::vmp_ops"));
            }

            // ───────────── convolution ─────────────
            #[test]
            fn cnv_ops() {
                install_hook();
                let mut rep = Report::default();
                for &n in $ns_dft.iter() {
                    let m = module(n);
                    for cols in 1..=2usize {
                        for as_ in 1..=3usize {
                            for bs in 1..=3usize {
                                let a = rand_vec(n, cols, as_, 3, 1);
                                let b = rand_vec(n, cols, bs, 3, 2);
                                let shape0 = format!("n={n} cols={cols} a_size={as_} b_size={bs}");
                                for mask in [-1i64, 0, 0xFF] {
                                    run3(&mut rep, "cnv_prepare_left", &format!("{shape0} mask={mask}"), |sf, rf| {
                                        let mut w = Window::new(m.cnv_prepare_left_tmp_bytes(as_, as_), sf);
                                        let mut l = m.cnv_pvec_left_alloc(cols, as_);
                                        l.data_mut().as_mut().fill(rf);
                                        m.cnv_prepare_left(&mut l, &a, mask, scratch(&mut w));
                                        (bytemuck::cast_slice::<_, u8>(l.raw()).to_vec(), w.guards_ok())
                                    });
                                    run3(&mut rep, "cnv_prepare_right", &format!("{shape0} mask={mask}"), |sf, rf| {
                                        let mut w = Window::new(m.cnv_prepare_right_tmp_bytes(bs, bs), sf);
                                        let mut r = m.cnv_pvec_right_alloc(cols, bs);
                                        r.data_mut().as_mut().fill(rf);
                                        m.cnv_prepare_right(&mut r, &b, mask, scratch(&mut w));
                                        (bytemuck::cast_slice::<_, u8>(r.raw()).to_vec(), w.guards_ok())
                                    });
                                    run3(&mut rep, "cnv_prepare_self", &format!("{shape0} mask={mask}"), |sf, rf| {
                                        let mut w = Window::new(m.cnv_prepare_self_tmp_bytes(as_, as_), sf);
                                        let mut l = m.cnv_pvec_left_alloc(cols, as_);
                                        let mut r = m.cnv_pvec_right_alloc(cols, as_);
                                        l.data_mut().as_mut().fill(rf);
                                        r.data_mut().as_mut().fill(rf);
                                        m.cnv_prepare_self(&mut l, &mut r, &a, mask, scratch(&mut w));
                                        let mut out = bytemuck::cast_slice::<_, u8>(l.raw()).to_vec();
                                        out.extend_from_slice(bytemuck::cast_slice::<_, u8>(r.raw()));
                                        (out, w.guards_ok())
                                    });
                                }
                                let mut l = m.cnv_pvec_left_alloc(cols, as_);
                                let mut r = m.cnv_pvec_right_alloc(cols, bs);
                                {
                                    let mut w = Window::new(m.cnv_prepare_left_tmp_bytes(as_, as_), 0);
                                    m.cnv_prepare_left(&mut l, &a, -1, scratch(&mut w));
                                    let mut w = Window::new(m.cnv_prepare_right_tmp_bytes(bs, bs), 0);
                                    m.cnv_prepare_right(&mut r, &b, -1, scratch(&mut w));
                                }
                                for rs in 0..=(as_ + bs + 1) {
                                    for off in 0..=(as_ + bs + 1) {
                                        let shape = format!("{shape0} res_size={rs} cnv_offset={off}");
                                        run3(&mut rep, "cnv_apply_dft", &shape, |sf, rf| {
                                            let mut w = Window::new(m.cnv_apply_dft_tmp_bytes(off, rs, as_, bs), sf);
                                            let mut res = dirty_dft(n, cols, rs, rf);
                                            m.cnv_apply_dft(off, &mut res, cols - 1, &l, 0, &r, cols - 1, scratch(&mut w));
                                            (col_bytes(&res, cols - 1), w.guards_ok())
                                        });
                                        run3(&mut rep, "cnv_pairwise_apply_dft", &shape, |sf, rf| {
                                            let mut w = Window::new(m.cnv_pairwise_apply_dft_tmp_bytes(off, rs, as_, bs), sf);
                                            let mut res = dirty_dft(n, cols, rs, rf);
                                            m.cnv_pairwise_apply_dft(off, &mut res, cols - 1, &l, &r, 0, cols - 1, scratch(&mut w));
                                            (col_bytes(&res, cols - 1), w.guards_ok())
                                        });
                                        let bconst: Vec<i64> = (0..bs as i64).map(|x| 3 * x - 1).collect();
                                        run3(&mut rep, "cnv_by_const_apply", &shape, |sf, rf| {
                                            let mut w = Window::new(m.cnv_by_const_apply_tmp_bytes(off, rs, as_, bs), sf);
                                            let mut res = dirty_big(n, cols, rs, rf);
                                            m.cnv_by_const_apply(off, &mut res, cols - 1, &a, 0, &bconst, scratch(&mut w));
                                            (col_bytes(&res, cols - 1), w.guards_ok())
                                        });
                                    }
                                }
                            }
                        }
                    }
                }
                rep.finish(concat!(stringify!($modname), "::cnv_ops"));
            }
        }
    };
}

