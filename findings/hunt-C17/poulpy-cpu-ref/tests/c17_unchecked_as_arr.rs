//! C17 — FFT64 reference kernels: fixed-size array views (`as_arr*`) are guarded by
//! `debug_assert!` only, so in a release build a short slice is turned into `&mut [T; 8|16]`
//! and read / written past its end.
//!
//! Every test places the memory that would be overrun inside a larger buffer the test owns
//! (guard bytes), so the overrun is observable without a memory checker and without crashing:
//!   * an out-of-bounds WRITE shows up as modified guard bytes,
//!   * an out-of-bounds READ shows up as a result that changes when only the guard bytes change.
//!
//! In a debug build the same calls stop on a panic (arithmetic overflow / debug assertion):
//! the tests accept a panic only if the guards are intact.
//!
//! Run:  cargo test --offline --release -p poulpy-cpu-ref --test c17_unchecked_as_arr

use std::panic::{AssertUnwindSafe, catch_unwind};

use poulpy_cpu_ref::{FFT64Ref, NTT120Ref};
use poulpy_hal::{
    api::*,
    layouts::{Backend, FillUniform, MatZnx, Module, Scratch, VecZnx, VecZnxBig, VecZnxDft, ZnxView},
    source::Source,
};

const GUARD: usize = 256;

/// `len` usable bytes, 64-byte aligned, preceded and followed by GUARD bytes of `guard_fill`.
struct Window {
    backing: Vec<u8>,
    len: usize,
    guard_fill: u8,
}
impl Window {
    fn new(len: usize, fill: u8, guard_fill: u8) -> Self {
        let mut backing: Vec<u8> = poulpy_hal::alloc_aligned::<u8>(GUARD + len.next_multiple_of(64) + GUARD);
        backing.fill(guard_fill);
        backing[GUARD..GUARD + len].fill(fill);
        Self { backing, len, guard_fill }
    }
    fn bytes(&mut self) -> &mut [u8] {
        &mut self.backing[GUARD..GUARD + self.len]
    }
    fn modified_guard_bytes(&self) -> usize {
        self.backing[..GUARD].iter().filter(|&&x| x != self.guard_fill).count()
            + self.backing[GUARD + self.len..].iter().filter(|&&x| x != self.guard_fill).count()
    }
}

fn rand_vec(n: usize, cols: usize, size: usize, seed: u8) -> VecZnx<Vec<u8>> {
    let mut v = VecZnx::alloc(n, cols, size);
    let mut s = Source::new([seed; 32]);
    v.fill_uniform(10, &mut s);
    v
}

fn quiet<R>(f: impl FnOnce() -> R) -> Result<R, ()> {
    let prev = std::panic::take_hook();
    std::panic::set_hook(Box::new(|_| {}));
    let r = catch_unwind(AssertUnwindSafe(f)).map_err(|_| ());
    std::panic::set_hook(prev);
    r
}

// ───────────── 1. receiver with zero limbs: out-of-bounds WRITE past the scratch window ─────────────

/// FFT64 `cnv_apply_dft` into a `VecZnxDft` with `size == 0`.
/// `cnv_apply_dft_tmp_bytes(.., res_size = 0, ..) == 0`, so the exact scratch window is empty;
/// `reim4_convolution` computes `0..dst_size - 1` with `dst_size == 0` and writes 16 f64.
#[test]
fn fft64_cnv_apply_dft_zero_limb_receiver_writes_past_scratch() {
    let n = 8usize;
    let m: Module<FFT64Ref> = Module::<FFT64Ref>::new(n as u64);
    let a = rand_vec(n, 1, 1, 1);
    let b = rand_vec(n, 1, 1, 2);
    let mut l = m.cnv_pvec_left_alloc(1, 1);
    let mut r = m.cnv_pvec_right_alloc(1, 1);
    {
        let mut w = Window::new(m.cnv_prepare_left_tmp_bytes(1, 1), 0, 0);
        m.cnv_prepare_left(&mut l, &a, -1, Scratch::<FFT64Ref>::from_bytes(w.bytes()));
        let mut w = Window::new(m.cnv_prepare_right_tmp_bytes(1, 1), 0, 0);
        m.cnv_prepare_right(&mut r, &b, -1, Scratch::<FFT64Ref>::from_bytes(w.bytes()));
    }
    let tmp = m.cnv_apply_dft_tmp_bytes(0, 0, 1, 1);
    assert_eq!(tmp, 0);
    let mut w = Window::new(tmp, 0, 0xEE);
    let mut res: VecZnxDft<_, FFT64Ref> = m.vec_znx_dft_alloc(1, 0);
    let outcome = quiet(|| m.cnv_apply_dft(0, &mut res, 0, &l, 0, &r, 0, Scratch::<FFT64Ref>::from_bytes(w.bytes())));
    let bad = w.modified_guard_bytes();
    assert_eq!(
        bad,
        0,
        "cnv_apply_dft(res.size()=0) wrote {bad} bytes outside its 0-byte scratch window (call {})",
        if outcome.is_ok() { "returned" } else { "then panicked" }
    );
}

/// Same, integer path: FFT64 `cnv_by_const_apply` into a `VecZnxBig` with `size == 0`.
#[test]
fn fft64_cnv_by_const_apply_zero_limb_receiver_writes_past_scratch() {
    let n = 8usize;
    let m: Module<FFT64Ref> = Module::<FFT64Ref>::new(n as u64);
    let a = rand_vec(n, 1, 1, 1);
    let tmp = m.cnv_by_const_apply_tmp_bytes(0, 0, 1, 1);
    // tmp = 8 * (min_size + a_size) * 8 = 64 bytes: [res_blk: 0 i64][a_blk: 8 i64]
    let mut w = Window::new(tmp, 0, 0xEE);
    let mut res: VecZnxBig<_, FFT64Ref> = m.vec_znx_big_alloc(1, 0);
    let outcome = quiet(|| m.cnv_by_const_apply(0, &mut res, 0, &a, 0, &[3i64], Scratch::<FFT64Ref>::from_bytes(w.bytes())));
    let bad = w.modified_guard_bytes();
    assert_eq!(
        bad,
        0,
        "cnv_by_const_apply(res.size()=0) wrote {bad} bytes outside its {tmp}-byte scratch window (call {})",
        if outcome.is_ok() { "returned" } else { "then panicked" }
    );
}

/// Sibling: NTT120 handles the zero-limb receiver (early return).
#[test]
fn ntt120_cnv_apply_dft_zero_limb_receiver_ok() {
    let n = 8usize;
    let m: Module<NTT120Ref> = Module::<NTT120Ref>::new(n as u64);
    let a = rand_vec(n, 1, 1, 1);
    let b = rand_vec(n, 1, 1, 2);
    let mut l = m.cnv_pvec_left_alloc(1, 1);
    let mut r = m.cnv_pvec_right_alloc(1, 1);
    {
        let mut w = Window::new(m.cnv_prepare_left_tmp_bytes(1, 1), 0, 0);
        m.cnv_prepare_left(&mut l, &a, -1, Scratch::<NTT120Ref>::from_bytes(w.bytes()));
        let mut w = Window::new(m.cnv_prepare_right_tmp_bytes(1, 1), 0, 0);
        m.cnv_prepare_right(&mut r, &b, -1, Scratch::<NTT120Ref>::from_bytes(w.bytes()));
    }
    let mut w = Window::new(m.cnv_apply_dft_tmp_bytes(0, 0, 1, 1), 0, 0xEE);
    let mut res: VecZnxDft<_, NTT120Ref> = m.vec_znx_dft_alloc(1, 0);
    m.cnv_apply_dft(0, &mut res, 0, &l, 0, &r, 0, Scratch::<NTT120Ref>::from_bytes(w.bytes()));
    assert_eq!(w.modified_guard_bytes(), 0);
}

// ───────────── 2. shape mismatch that only a debug assertion rejects: out-of-bounds READ ─────────────

/// FFT64 `vmp_apply_dft_to_dft` with `a.cols() (=2) > pmat.cols_in() (=1)`, `pmat.rows() = 2`, `a.size() = 1`.
/// `assert_eq!(a.cols(), pmat.cols_in())` is under `#[cfg(debug_assertions)]`; in release the
/// product loop runs over `row_max = min(cols_in*rows, a.cols()*a.size()) = 2` rows although the
/// scratch holds `min(a.size(), rows) * cols_in = 1` extracted row: `as_arr(&u[8..])` is taken on an
/// empty slice and reads 64 bytes past the scratch window.
#[test]
fn fft64_vmp_apply_dft_to_dft_cols_mismatch_reads_past_scratch() {
    let n = 8usize;
    let m: Module<FFT64Ref> = Module::<FFT64Ref>::new(n as u64);
    let (rows, cols_in, cols_out, psize) = (2usize, 1usize, 1usize, 1usize);
    let mut mat = MatZnx::alloc(n, rows, cols_in, cols_out, psize);
    mat.fill_uniform(10, &mut Source::new([4u8; 32]));
    let mut p = m.vmp_pmat_alloc(rows, cols_in, cols_out, psize);
    {
        let mut w = Window::new(m.vmp_prepare_tmp_bytes(rows, cols_in, cols_out, psize), 0, 0);
        m.vmp_prepare(&mut p, &mat, Scratch::<FFT64Ref>::from_bytes(w.bytes()));
    }
    // a: 2 columns, 1 limb (pmat expects 1 column)
    let a_small = rand_vec(n, 2, 1, 1);
    let mut a: VecZnxDft<_, FFT64Ref> = m.vec_znx_dft_alloc(2, 1);
    for c in 0..2 {
        m.vec_znx_dft_apply(1, 0, &mut a, c, &a_small, c);
    }
    let tmp = m.vmp_apply_dft_to_dft_tmp_bytes(1, 1, rows, cols_in, cols_out, psize);
    let mut outs: Vec<Result<Vec<u8>, ()>> = vec![];
    for guard_fill in [0x00u8, 0x3F, 0x40] {
        let mut w = Window::new(tmp, 0, guard_fill);
        let mut res: VecZnxDft<_, FFT64Ref> = m.vec_znx_dft_alloc(cols_out, 1);
        let r = quiet(|| m.vmp_apply_dft_to_dft(&mut res, &a, &p, 0, Scratch::<FFT64Ref>::from_bytes(w.bytes())));
        outs.push(r.map(|_| bytemuck::cast_slice::<_, u8>(res.raw()).to_vec()));
    }
    // fine: every call panicked (shape rejected). Not fine: it returned something that depends on
    // bytes that are neither operand nor scratch.
    if outs.iter().all(|o| o.is_err()) {
        return;
    }
    assert!(
        outs[0] == outs[1] && outs[0] == outs[2],
        "vmp_apply_dft_to_dft(a.cols()=2, pmat.cols_in()=1) returned a result that changes with the bytes located \
         AFTER the exact-size scratch window => it read outside the scratch"
    );
}

/// FFT64 `cnv_apply_dft` with `a_col == a.cols()` (one past the last column): there is no assertion
/// on `a_col`; `&a_raw[a_idx..]` is the empty tail slice and `as_arr(&a[..])` reads 64 bytes past the
/// end of the prepared vector. The prepared vector lives in a caller-provided window so the bytes
/// after it are under the test's control.
#[test]
fn fft64_cnv_apply_dft_col_one_past_end_reads_past_operand() {
    use poulpy_hal::layouts::CnvPVecL;
    let n = 8usize;
    let m: Module<FFT64Ref> = Module::<FFT64Ref>::new(n as u64);
    let a = rand_vec(n, 1, 1, 1);
    let b = rand_vec(n, 1, 1, 2);
    let mut r = m.cnv_pvec_right_alloc(1, 1);
    {
        let mut w = Window::new(m.cnv_prepare_right_tmp_bytes(1, 1), 0, 0);
        m.cnv_prepare_right(&mut r, &b, -1, Scratch::<FFT64Ref>::from_bytes(w.bytes()));
    }
    let lbytes = m.bytes_of_cnv_pvec_left(1, 1);
    let mut outs: Vec<Result<Vec<u8>, ()>> = vec![];
    for guard_fill in [0x00u8, 0x3F, 0x40] {
        let mut lw = Window::new(lbytes, 0, guard_fill);
        let mut l: CnvPVecL<&mut [u8], FFT64Ref> = CnvPVecL::from_data(lw.bytes(), n, 1, 1);
        {
            let mut w = Window::new(m.cnv_prepare_left_tmp_bytes(1, 1), 0, 0);
            m.cnv_prepare_left(&mut l, &a, -1, Scratch::<FFT64Ref>::from_bytes(w.bytes()));
        }
        let mut w = Window::new(m.cnv_apply_dft_tmp_bytes(0, 1, 1, 1), 0, 0);
        let mut res: VecZnxDft<_, FFT64Ref> = m.vec_znx_dft_alloc(1, 1);
        let q = quiet(|| m.cnv_apply_dft(0, &mut res, 0, &l, 1, &r, 0, Scratch::<FFT64Ref>::from_bytes(w.bytes())));
        outs.push(q.map(|_| bytemuck::cast_slice::<_, u8>(res.raw()).to_vec()));
    }
    if outs.iter().all(|o| o.is_err()) {
        return;
    }
    assert!(
        outs[0] == outs[1] && outs[0] == outs[2],
        "cnv_apply_dft(a_col = a.cols()) returned a result that changes with the bytes located AFTER the prepared \
         left operand => it read outside the operand"
    );
}

#[allow(dead_code)]
fn _unused<B: Backend>() {}
