//! C17 — layout level: every slice handed out by a *safe* accessor must lie inside the
//! byte buffer the object owns / borrows, and must be aligned for its scalar type.
//!
//! The oracle is purely structural: address range of the returned slice vs. address range
//! of `data`. A call is "fine" if it panics (library assertion) or returns an in-bounds,
//! aligned slice. It is a C17 violation if it *returns* a slice that leaves the buffer.
//!
//! None of the tests dereferences an out-of-bounds slice (so they do not crash); they only
//! compare addresses. Run under miri to see the same violations reported as UB.

use std::panic::{AssertUnwindSafe, catch_unwind};

use poulpy_cpu_ref::{FFT64Ref, NTT120Ref};
use poulpy_hal::{
    api::{ModuleNew, ScratchAvailable, ScratchFromBytes, ScratchOwnedAlloc, ScratchOwnedBorrow, ScratchTakeBasic, TakeSlice},
    layouts::{
        Backend, CnvPVecL, CnvPVecR, MatZnx, Module, ReaderFrom, ScalarZnx, Scratch, ScratchOwned, SvpPPol, ToOwnedDeep, VecZnx,
        VecZnxBig, VecZnxDft, VmpPMat, WriterTo, ZnxInfos, ZnxView, ZnxViewMut,
    },
};

fn inside<T>(s: &[T], buf: &[u8]) -> bool {
    if s.is_empty() {
        // an empty slice must still point into (or one past) the buffer
        let a = s.as_ptr() as usize;
        let lo = buf.as_ptr() as usize;
        return a >= lo && a <= lo + buf.len();
    }
    let a = s.as_ptr() as usize;
    let b = a + std::mem::size_of_val(s);
    let lo = buf.as_ptr() as usize;
    let hi = lo + buf.len();
    a >= lo && b <= hi
}

fn aligned<T>(s: &[T]) -> bool {
    (s.as_ptr() as usize).is_multiple_of(std::mem::align_of::<T>())
}

/// Outcome of a probe: Ok(()) = panicked or in-bounds; Err(msg) = escaped the buffer.
fn probe<F: FnOnce() -> Result<(), String>>(f: F) -> Result<(), String> {
    match catch_unwind(AssertUnwindSafe(f)) {
        Ok(r) => r,
        Err(_) => Ok(()), // library rejected the call: fine
    }
}

fn check<T>(what: &str, s: &[T], buf: &[u8]) -> Result<(), String> {
    if !inside(s, buf) {
        return Err(format!(
            "{what}: slice [{:#x}, +{}B) escapes data [{:#x}, +{}B)",
            s.as_ptr() as usize,
            std::mem::size_of_val(s),
            buf.as_ptr() as usize,
            buf.len()
        ));
    }
    if !aligned(s) {
        return Err(format!(
            "{what}: slice at {:#x} misaligned for align {}",
            s.as_ptr() as usize,
            std::mem::align_of::<T>()
        ));
    }
    Ok(())
}

// ───────────────────────── A. from_data with a buffer shorter than the metadata ─────────────────────────

#[test]
fn a1_vec_znx_from_data_short_buffer() {
    let r = probe(|| {
        let buf: Vec<u8> = poulpy_hal::alloc_aligned::<u8>(64);
        let v = VecZnx::from_data(buf, 16, 2, 3); // needs 16*2*3*8 = 768 B, has 64
        check("VecZnx::from_data(64B,16,2,3).at(1,2)", v.at(1, 2), &v.data)
    });
    assert!(r.is_ok(), "{}", r.unwrap_err());
}

#[test]
fn a2_scalar_znx_from_data_short_buffer() {
    let r = probe(|| {
        let buf: Vec<u8> = poulpy_hal::alloc_aligned::<u8>(64);
        let v = ScalarZnx::from_data(buf, 16, 2);
        check("ScalarZnx::from_data(64B,16,2).at(1,0)", v.at(1, 0), &v.data)
    });
    assert!(r.is_ok(), "{}", r.unwrap_err());
}

#[test]
fn a3_mat_znx_from_data_short_buffer() {
    let r = probe(|| {
        let buf: Vec<u8> = poulpy_hal::alloc_aligned::<u8>(64);
        let m = MatZnx::from_data(buf, 16, 2, 2, 2, 2);
        let raw = m.raw();
        let ok = {
            use poulpy_hal::layouts::DataView;
            check("MatZnx::from_data(64B,..).raw()", raw, m.data())
        };
        ok
    });
    assert!(r.is_ok(), "{}", r.unwrap_err());
}

fn dft_from_data_short<B: Backend>() -> Result<(), String> {
    probe(|| {
        let buf: Vec<u8> = poulpy_hal::alloc_aligned::<u8>(64);
        let v: VecZnxDft<Vec<u8>, B> = VecZnxDft::from_data(buf, 16, 2, 3);
        check("VecZnxDft::from_data(64B,16,2,3).at(1,2)", v.at(1, 2), &v.data)
    })
}
fn big_from_data_short<B: Backend>() -> Result<(), String> {
    probe(|| {
        let buf: Vec<u8> = poulpy_hal::alloc_aligned::<u8>(64);
        let v: VecZnxBig<Vec<u8>, B> = VecZnxBig::from_data(buf, 16, 2, 3);
        check("VecZnxBig::from_data(64B,16,2,3).at(1,2)", v.at(1, 2), &v.data)
    })
}
fn svp_from_data_short<B: Backend>() -> Result<(), String> {
    probe(|| {
        let buf: Vec<u8> = poulpy_hal::alloc_aligned::<u8>(64);
        let v: SvpPPol<Vec<u8>, B> = SvpPPol::from_data(buf, 16, 2);
        check("SvpPPol::from_data(64B,16,2).at(1,0)", v.at(1, 0), &v.data)
    })
}
fn vmp_from_data_short<B: Backend>() -> Result<(), String> {
    use poulpy_hal::layouts::DataView;
    probe(|| {
        let buf: Vec<u8> = poulpy_hal::alloc_aligned::<u8>(64);
        let v: VmpPMat<Vec<u8>, B> = VmpPMat::from_data(buf, 16, 2, 2, 2, 2);
        check("VmpPMat::from_data(64B,..).raw()", v.raw(), v.data())
    })
}
fn cnv_from_data_short<B: Backend>() -> Result<(), String> {
    use poulpy_hal::layouts::DataView;
    probe(|| {
        let buf: Vec<u8> = poulpy_hal::alloc_aligned::<u8>(64);
        let v: CnvPVecL<Vec<u8>, B> = CnvPVecL::from_data(buf, 16, 2, 3);
        check("CnvPVecL::from_data(64B,16,2,3).raw()", v.raw(), v.data())?;
        let buf: Vec<u8> = poulpy_hal::alloc_aligned::<u8>(64);
        let v: CnvPVecR<Vec<u8>, B> = CnvPVecR::from_data(buf, 16, 2, 3);
        check("CnvPVecR::from_data(64B,16,2,3).raw()", v.raw(), v.data())
    })
}

#[test]
fn a4_prepared_layouts_from_data_short_buffer() {
    let mut errs = vec![];
    for r in [
        dft_from_data_short::<FFT64Ref>(),
        dft_from_data_short::<NTT120Ref>(),
        big_from_data_short::<FFT64Ref>(),
        big_from_data_short::<NTT120Ref>(),
        svp_from_data_short::<FFT64Ref>(),
        svp_from_data_short::<NTT120Ref>(),
        vmp_from_data_short::<FFT64Ref>(),
        vmp_from_data_short::<NTT120Ref>(),
        cnv_from_data_short::<FFT64Ref>(),
        cnv_from_data_short::<NTT120Ref>(),
    ] {
        if let Err(e) = r {
            errs.push(e)
        }
    }
    assert!(errs.is_empty(), "{}", errs.join("\n"));
}

// ───────────────────────── B. from_data over a mis-aligned borrowed window ─────────────────────────

#[test]
fn b1_vec_znx_from_data_misaligned_borrow() {
    // NOTE: `at()` is `slice::from_raw_parts(at_ptr(i, j), n)`. In a debug build std's own
    // UB check inside from_raw_parts aborts the process on a misaligned pointer, so the probe
    // looks at `at_ptr` (same pointer) instead of calling `at`.
    let r = probe(|| {
        let mut buf: Vec<u8> = poulpy_hal::alloc_aligned::<u8>(128);
        let win: &mut [u8] = &mut buf[1..1 + 4 * 8];
        let v = VecZnx::from_data(win, 4, 1, 1);
        let p = v.at_ptr(0, 0);
        if !(p as usize).is_multiple_of(8) {
            return Err(format!(
                "VecZnx::from_data(&mut buf[1..33],4,1,1): accepted; at(0,0) would build &[i64] at {p:p} (not 8-byte aligned)"
            ));
        }
        Ok(())
    });
    assert!(r.is_ok(), "{}", r.unwrap_err());
}

// ───────────────────────── C. Clone / to_owned_deep keep the documented alignment ─────────────────────────
// (lib.rs: "All memory allocations are aligned to DEFAULTALIGN (64 bytes)"; from_bytes asserts it.)

#[test]
fn c1_clone_and_to_owned_deep_alignment() {
    let mut errs = vec![];
    // many sizes so that a 16-byte-aligning allocator shows a non-64 address at least once
    for n in [1usize, 2, 4, 8, 16] {
        for size in 1..4usize {
            let v = VecZnx::alloc(n, 1, size);
            let c = v.clone();
            if !poulpy_hal::is_aligned(c.data.as_ptr()) {
                errs.push(format!("VecZnx::clone n={n} size={size}: data at {:p} not 64B aligned", c.data.as_ptr()));
            }
            let d = v.to_owned_deep();
            if !poulpy_hal::is_aligned(d.data.as_ptr()) {
                errs.push(format!(
                    "VecZnx::to_owned_deep n={n} size={size}: data at {:p} not 64B aligned",
                    d.data.as_ptr()
                ));
            }
            // and the scalar view must at least be aligned for i64
            if !aligned(c.at(0, 0)) || !aligned(d.at(0, 0)) {
                errs.push(format!("VecZnx clone/to_owned_deep n={n} size={size}: at(0,0) misaligned for i64"));
            }
        }
    }
    assert!(errs.is_empty(), "{}", errs.join("\n"));
}

// ───────────────────────── D. zero-sized dimensions ─────────────────────────

#[test]
fn d1_mat_znx_zero_rows_znxview_at() {
    use poulpy_hal::layouts::DataView;
    let r = probe(|| {
        let m = MatZnx::alloc(4, 0, 1, 1, 1); // 0 rows => 0 bytes
        assert_eq!(m.raw().len(), 0);
        let s = ZnxView::at(&m, 0, 0); // asserts only i < cols_in, j < size
        check("ZnxView::at(&MatZnx::alloc(4,0,1,1,1),0,0)", s, m.data())
    });
    assert!(r.is_ok(), "{}", r.unwrap_err());
}

#[test]
fn d2_mat_znx_zero_cols_out_znxview_at() {
    use poulpy_hal::layouts::DataView;
    let r = probe(|| {
        let m = MatZnx::alloc(4, 2, 2, 0, 3);
        let s = ZnxView::at(&m, 1, 2);
        check("ZnxView::at(&MatZnx::alloc(4,2,2,0,3),1,2)", s, m.data())
    });
    assert!(r.is_ok(), "{}", r.unwrap_err());
}

fn vmp_zero_rows<B: Backend>() -> Result<(), String> {
    use poulpy_hal::layouts::DataView;
    probe(|| {
        let m: VmpPMat<_, B> = VmpPMat::alloc(4, 0, 1, 1, 1);
        let s = m.at(0, 0);
        check("VmpPMat::alloc(4,0,1,1,1).at(0,0)", s, m.data().as_ref())
    })
}

#[test]
fn d3_vmp_pmat_zero_rows_at() {
    let mut errs = vec![];
    for r in [vmp_zero_rows::<FFT64Ref>(), vmp_zero_rows::<NTT120Ref>()] {
        if let Err(e) = r {
            errs.push(e)
        }
    }
    assert!(errs.is_empty(), "{}", errs.join("\n"));
}

#[test]
fn d4_vec_znx_zero_dims_accessors_ok() {
    // these are handled: accessors assert i<cols, j<size
    for (n, cols, size) in [(4usize, 0usize, 1usize), (4, 1, 0), (0, 1, 1), (0, 0, 0)] {
        let r = probe(|| {
            let v = VecZnx::alloc(n, cols, size);
            check("raw", v.raw(), &v.data)?;
            check("at", v.at(0, 0), &v.data)
        });
        assert!(r.is_ok(), "{}", r.unwrap_err());
    }
}

// ───────────────────────── E. MatZnx::read_from: header with a zero dimension ─────────────────────────

#[test]
fn e1_mat_znx_read_from_zero_rows_header() {
    use poulpy_hal::layouts::DataView;
    // stream: n=1<<20, size=1, rows=0, cols_in=1, cols_out=1, len=0  (product = 0 = len: consistent)
    let mut stream: Vec<u8> = vec![];
    for x in [1u64 << 20, 1, 0, 1, 1, 0] {
        stream.extend_from_slice(&x.to_le_bytes());
    }
    let r = probe(|| {
        let mut m = MatZnx::alloc(2, 1, 1, 1, 1); // 16 bytes
        let res = m.read_from(&mut stream.as_slice());
        if res.is_err() {
            return Ok(());
        }
        let s = ZnxView::at(&m, 0, 0);
        check("after read_from(rows=0,n=2^20): ZnxView::at(&m,0,0)", s, m.data())
    });
    assert!(r.is_ok(), "{}", r.unwrap_err());
}

// ───────────────────────── F. histories: set_size / reallocate_limbs / read_from then access ─────────────────────────

#[test]
fn f1_vec_znx_histories_stay_in_bounds() {
    for n in [1usize, 2, 3, 4, 8] {
        for cols in 1..4usize {
            for size in 1..5usize {
                let mut v = VecZnx::alloc(n, cols, size);
                for s in (0..=size).rev() {
                    v.set_size(s);
                    check("raw after set_size", v.raw(), &v.data).unwrap();
                    for i in 0..cols {
                        for j in 0..s {
                            check("at after set_size", v.at(i, j), &v.data).unwrap();
                        }
                    }
                    assert!(catch_unwind(AssertUnwindSafe(|| v.at(0, s).len())).is_err());
                }
                assert!(catch_unwind(AssertUnwindSafe(|| v.set_size(size + 1))).is_err());
                // shrink, reallocate to something else, grow back to max_size
                for new_size in 0..6usize {
                    let mut w = VecZnx::alloc(n, cols, size);
                    w.set_size(size / 2);
                    w.reallocate_limbs(new_size);
                    let ms = w.max_size();
                    w.set_size(ms);
                    check("raw after reallocate_limbs+set_size(max)", w.raw(), &w.data).unwrap();
                    for i in 0..cols {
                        for j in 0..ms {
                            check("at after reallocate_limbs", w.at(i, j), &w.data).unwrap();
                        }
                    }
                }
                // serialise a shrunk object, read it into receivers of various capacities
                let mut src = VecZnx::alloc(n, cols, size);
                src.set_size(size.saturating_sub(1));
                let mut bytes = vec![];
                src.write_to(&mut bytes).unwrap();
                for rsize in 0..6usize {
                    let mut dst = VecZnx::alloc(n, cols, rsize);
                    if dst.read_from(&mut bytes.as_slice()).is_ok() {
                        let ms = dst.max_size();
                        dst.set_size(ms);
                        check("raw after read_from+set_size(max)", dst.raw(), &dst.data).unwrap();
                    }
                }
            }
        }
    }
}

// ───────────────────────── G. scratch carving ─────────────────────────

fn scratch_carving<B: Backend>()
where
    ScratchOwned<B>: ScratchOwnedAlloc<B> + ScratchOwnedBorrow<B>,
    Scratch<B>: TakeSlice + ScratchAvailable + ScratchFromBytes<B>,
    Module<B>: ModuleNew<B>
        + poulpy_hal::api::ModuleN
        + poulpy_hal::api::VecZnxDftBytesOf
        + poulpy_hal::api::VecZnxBigBytesOf
        + poulpy_hal::api::SvpPPolBytesOf
        + poulpy_hal::api::VmpPMatBytesOf,
{
    use poulpy_hal::api::{SvpPPolBytesOf, VecZnxBigBytesOf, VecZnxDftBytesOf, VmpPMatBytesOf};
    for n in [2u64, 4, 8] {
        let module: Module<B> = Module::<B>::new(n);
        let n = n as usize;
        // window at every byte offset of a 64-byte line, exact size for (vec_znx, dft, big, svp, vmp)
        for off in 0..64usize {
            for cols in 1..3usize {
                for size in 1..4usize {
                    let need = |x: usize| x.next_multiple_of(64);
                    let total = need(VecZnx::bytes_of(n, cols, size))
                        + need(module.bytes_of_vec_znx_dft(cols, size))
                        + need(module.bytes_of_vec_znx_big(cols, size))
                        + need(module.bytes_of_svp_ppol(cols))
                        + need(module.bytes_of_vmp_pmat(size, cols, cols, size));
                    let pad = (64 - off) % 64;
                    let mut backing: Vec<u8> = poulpy_hal::alloc_aligned::<u8>(off + pad + total + 64);
                    backing.fill(0xAB);
                    let lo = backing.as_ptr() as usize + off;
                    let win_len = pad + total;
                    let hi = lo + win_len;
                    {
                        let win: &mut [u8] = &mut backing[off..off + win_len];
                        let scratch: &mut Scratch<B> = Scratch::<B>::from_bytes(win);
                        assert_eq!(scratch.available(), total);
                        let (mut a, s1) = scratch.take_vec_znx(n, cols, size);
                        let (mut b, s2) = s1.take_vec_znx_dft::<_, B>(&module, cols, size);
                        let (mut c, s3) = s2.take_vec_znx_big::<_, B>(&module, cols, size);
                        let (d, s4) = s3.take_svp_ppol::<_, B>(&module, cols);
                        let (e, s5) = s4.take_vmp_pmat::<_, B>(&module, size, cols, cols, size);
                        assert_eq!(s5.available(), 0);
                        let mut ranges: Vec<(usize, usize)> = vec![];
                        let mut push = |p: usize, l: usize| {
                            assert!(p >= lo && p + l <= hi, "carved object escapes the window");
                            assert!(p.is_multiple_of(64));
                            ranges.push((p, p + l));
                        };
                        push(a.raw().as_ptr() as usize, std::mem::size_of_val(a.raw()));
                        push(b.raw().as_ptr() as usize, std::mem::size_of_val(b.raw()));
                        push(c.raw().as_ptr() as usize, std::mem::size_of_val(c.raw()));
                        push(d.raw().as_ptr() as usize, std::mem::size_of_val(d.raw()));
                        push(e.raw().as_ptr() as usize, std::mem::size_of_val(e.raw()));
                        ranges.sort();
                        for w in ranges.windows(2) {
                            assert!(w[0].1 <= w[1].0, "carved objects overlap");
                        }
                        // write through every view
                        a.raw_mut().fill(1);
                        b.raw_mut().iter_mut().for_each(|x| *x = bytemuck::Zeroable::zeroed());
                        c.raw_mut().iter_mut().for_each(|x| *x = bytemuck::Zeroable::zeroed());
                    }
                    // guard bytes outside the window untouched
                    assert!(backing[..off].iter().all(|&x| x == 0xAB));
                    assert!(backing[off + win_len..].iter().all(|&x| x == 0xAB));
                }
            }
        }
    }
}

#[test]
fn g1_scratch_carving_fft64() {
    scratch_carving::<FFT64Ref>();
}
#[test]
fn g2_scratch_carving_ntt120() {
    scratch_carving::<NTT120Ref>();
}

/// take of one byte more than available must panic, never hand out memory past the window.
#[test]
fn g3_scratch_overdraw_panics() {
    for off in [0usize, 1, 8, 63] {
        let mut backing: Vec<u8> = poulpy_hal::alloc_aligned::<u8>(512);
        let win = &mut backing[off..off + 256];
        let scratch: &mut Scratch<FFT64Ref> = Scratch::<FFT64Ref>::from_bytes(win);
        let avail = scratch.available();
        let r = catch_unwind(AssertUnwindSafe(|| {
            let (s, _) = scratch.take_slice::<u8>(avail + 1);
            s.len()
        }));
        assert!(r.is_err());
    }
}

/// Size computations: `len * size_of::<T>()` / `n*cols*size*8` must not wrap to a small number.
/// (debug builds panic on the overflow; release builds wrap.)
#[test]
fn g4_take_slice_len_overflow() {
    let r = probe(|| {
        let mut so: ScratchOwned<FFT64Ref> = ScratchOwned::alloc(256);
        let lo = so.data.as_ref().as_ptr() as usize;
        let scratch = so.borrow();
        let (s, _rem) = scratch.take_slice::<u64>(1usize << 61); // 2^61 * 8 == 0 (mod 2^64)
        if s.len() > 32 || (s.as_ptr() as usize) < lo {
            return Err(format!("take_slice::<u64>(1<<61) on a 256 B scratch returned a slice of {} elements", s.len()));
        }
        Ok(())
    });
    assert!(r.is_ok(), "{}", r.unwrap_err());
}

#[test]
fn g5_take_vec_znx_bytes_overflow() {
    let r = probe(|| {
        let mut so: ScratchOwned<FFT64Ref> = ScratchOwned::alloc(256);
        let scratch = so.borrow();
        let (v, rem) = scratch.take_vec_znx(4, 1usize << 61, 1); // 4 * 2^61 * 8 == 0 (mod 2^64)
        let took = 256 - rem.available();
        let want = v.n() * v.cols() as usize; // number of i64 the object claims (wraps too, only for the message)
        if took < 32 {
            return Err(format!(
                "take_vec_znx(4, 1<<61, 1) consumed {took} B of scratch but at(0,0) spans 32 B (claimed i64 count mod 2^64 = {want}); \
                 the view aliases the remaining scratch"
            ));
        }
        Ok(())
    });
    assert!(r.is_ok(), "{}", r.unwrap_err());
}

#[test]
fn g6_vec_znx_alloc_bytes_overflow() {
    let r = probe(|| {
        let v = VecZnx::alloc(4, 1usize << 61, 1);
        check("VecZnx::alloc(4, 1<<61, 1).at(0,0)", v.at(0, 0), &v.data)
    });
    assert!(r.is_ok(), "{}", r.unwrap_err());
}

// ───────────────────────── H. read_from on header-corrupted streams (grid fuzz) ─────────────────────────
// Every header field ranges over a set of "interesting" values; the payload length field is either the
// true product (when it fits) or another interesting value. Whenever read_from returns Ok, every slice
// reachable through the safe accessors must lie inside the receiver's buffer.


/// Like `check`, but never materialises the slice (std's debug-build precondition check inside
/// `slice::from_raw_parts` aborts the process for > isize::MAX bytes or misaligned pointers).
/// `at(i, j)` is by definition `from_raw_parts(at_ptr(i, j), n)`.
fn check_ptr<T>(what: &str, p: *const T, elems: usize, buf: &[u8]) -> Result<(), String> {
    let a = p as usize;
    let bytes = (elems as u128) * (std::mem::size_of::<T>() as u128);
    let lo = buf.as_ptr() as usize;
    let hi = lo + buf.len();
    let ok = if elems == 0 { a >= lo && a <= hi } else { a >= lo && (a as u128) + bytes <= hi as u128 };
    if !ok {
        return Err(format!("{what}: slice [{a:#x}, +{bytes}B) escapes data [{lo:#x}, +{}B)", buf.len()));
    }
    if !a.is_multiple_of(std::mem::align_of::<T>()) {
        return Err(format!("{what}: misaligned"));
    }
    Ok(())
}

trait PolyCountWrapping {
    fn poly_count_wrapping(&self) -> usize;
}
impl<D: poulpy_hal::layouts::Data> PolyCountWrapping for VecZnx<D> {
    fn poly_count_wrapping(&self) -> usize {
        self.cols().wrapping_mul(self.size())
    }
}
impl<D: poulpy_hal::layouts::Data> PolyCountWrapping for ScalarZnx<D> {
    fn poly_count_wrapping(&self) -> usize {
        self.cols()
    }
}
impl<D: poulpy_hal::layouts::Data> PolyCountWrapping for MatZnx<D> {
    fn poly_count_wrapping(&self) -> usize {
        self.rows().wrapping_mul(self.cols_in()).wrapping_mul(self.cols_out()).wrapping_mul(ZnxInfos::size(self))
    }
}

const VALS: [u64; 11] = [0, 1, 2, 3, 4, 8, 1 << 20, 1 << 32, 1 << 61, (1 << 63) + 1, u64::MAX];

fn stream(fields: &[u64], payload: usize) -> Vec<u8> {
    let mut s = vec![];
    for f in fields {
        s.extend_from_slice(&f.to_le_bytes());
    }
    s.extend(std::iter::repeat_n(0x5Au8, payload));
    s
}

fn first_last(n: usize) -> Vec<usize> {
    if n == 0 { vec![] } else if n == 1 { vec![0] } else { vec![0, n - 1] }
}

#[test]
fn h1_vec_znx_read_from_grid() {
    let mut errs = std::collections::BTreeSet::new();
    for &n in &VALS {
        for &cols in &VALS {
            for &size in &VALS {
                for &max_size in &VALS {
                    let prod = (n as u128).saturating_mul(cols as u128).saturating_mul(size as u128).saturating_mul(8);
                    let mut lens = vec![0u64, 64, 128];
                    if prod <= 256 {
                        lens.push(prod as u64);
                    }
                    for len in lens {
                        let s = stream(&[n, cols, size, max_size, len], (len as usize).min(512));
                        let r = probe(|| {
                            let mut v = VecZnx::alloc(4, 2, 2); // 128 B receiver
                            if v.read_from(&mut s.as_slice()).is_err() {
                                return Ok(());
                            }
                            check_ptr("raw", v.as_ptr(), v.n().wrapping_mul(v.poly_count_wrapping()), &v.data)?;
                            for &i in &first_last(v.cols()) {
                                for &j in &first_last(v.size()) {
                                    check_ptr("at", v.at_ptr(i, j), v.n(), &v.data)?;
                                }
                            }
                            let ms = v.max_size();
                            v.set_size(ms);
                            for &i in &first_last(v.cols()) {
                                for &j in &first_last(v.size()) {
                                    check_ptr("at after set_size(max_size)", v.at_ptr(i, j), v.n(), &v.data)?;
                                }
                            }
                            Ok(())
                        });
                        if let Err(e) = r {
                            errs.insert(format!("n={n} cols={cols} size={size} max_size={max_size} len={len}: {e}"));
                        }
                    }
                }
            }
        }
    }
    assert!(errs.is_empty(), "{} failing headers, e.g.\n{}", errs.len(), errs.iter().take(5).cloned().collect::<Vec<_>>().join("\n"));
}

#[test]
fn h2_scalar_znx_read_from_grid() {
    let mut errs = std::collections::BTreeSet::new();
    for &n in &VALS {
        for &cols in &VALS {
            let prod = (n as u128).saturating_mul(cols as u128).saturating_mul(8);
            let mut lens = vec![0u64, 64];
            if prod <= 256 {
                lens.push(prod as u64);
            }
            for len in lens {
                let s = stream(&[n, cols, len], (len as usize).min(512));
                let r = probe(|| {
                    let mut v = ScalarZnx::alloc(4, 2); // 64 B
                    if v.read_from(&mut s.as_slice()).is_err() {
                        return Ok(());
                    }
                    check_ptr("raw", v.as_ptr(), v.n().wrapping_mul(v.poly_count_wrapping()), &v.data)?;
                    for &i in &first_last(v.cols()) {
                        check_ptr("at", v.at_ptr(i, 0), v.n(), &v.data)?;
                    }
                    Ok(())
                });
                if let Err(e) = r {
                    errs.insert(format!("n={n} cols={cols} len={len}: {e}"));
                }
            }
        }
    }
    assert!(errs.is_empty(), "{} failing headers, e.g.\n{}", errs.len(), errs.iter().take(5).cloned().collect::<Vec<_>>().join("\n"));
}

#[test]
fn h3_mat_znx_read_from_grid() {
    use poulpy_hal::layouts::DataView;
    let vals: [u64; 8] = [0, 1, 2, 3, 4, 1 << 20, 1 << 61, u64::MAX];
    let mut errs = std::collections::BTreeSet::new();
    for &n in &vals {
        for &size in &vals {
            for &rows in &vals {
                for &cols_in in &vals {
                    for &cols_out in &vals {
                        let prod = (n as u128)
                            .saturating_mul(size as u128)
                            .saturating_mul(rows as u128)
                            .saturating_mul(cols_in as u128)
                            .saturating_mul(cols_out as u128)
                            .saturating_mul(8);
                        let mut lens = vec![0u64];
                        if prod <= 256 && prod != 0 {
                            lens.push(prod as u64);
                        }
                        for len in lens {
                            let s = stream(&[n, size, rows, cols_in, cols_out, len], (len as usize).min(512));
                            let r = probe(|| {
                                let mut m = MatZnx::alloc(2, 2, 2, 2, 1); // 128 B
                                if m.read_from(&mut s.as_slice()).is_err() {
                                    return Ok(());
                                }
                                check_ptr("raw", ZnxView::as_ptr(&m), m.n().wrapping_mul(m.poly_count_wrapping()), m.data())?;
                                // generic (trait) accessors
                                for &i in &first_last(ZnxInfos::cols(&m)) {
                                    for &j in &first_last(ZnxInfos::size(&m)) {
                                        check_ptr("ZnxView::at", ZnxView::at_ptr(&m, i, j), m.n(), m.data())?;
                                    }
                                }
                                // inherent (row, col) accessor -> VecZnx view
                                for &r in &first_last(m.rows()) {
                                    for &c in &first_last(m.cols_in()) {
                                        let v = m.at(r, c);
                                        for &i in &first_last(v.cols()) {
                                            for &j in &first_last(v.size()) {
                                                check_ptr("MatZnx::at(r,c).at(i,j)", v.at_ptr(i, j), v.n(), m.data())?;
                                            }
                                        }
                                    }
                                }
                                Ok(())
                            });
                            if let Err(e) = r {
                                errs.insert(format!(
                                    "n={n} size={size} rows={rows} cols_in={cols_in} cols_out={cols_out} len={len}: {e}"
                                ));
                            }
                        }
                    }
                }
            }
        }
    }
    assert!(errs.is_empty(), "{} failing headers, e.g.\n{}", errs.len(), errs.iter().take(6).cloned().collect::<Vec<_>>().join("\n"));
}

// ───────────────────────── I. scratch take_* : the output backend is a free type parameter ─────────────────────────
// `take_vec_znx_dft<M, B: Backend>(&mut self, module: &M, ..)` sizes the window with `module.bytes_of_vec_znx_dft`
// (8 B/coeff for a Module<FFT64Ref>) but types the view with an unrelated `B` (32 B/coeff for NTT120Ref).

#[test]
fn i1_take_vec_znx_dft_with_foreign_backend_tag() {
    let r = probe(|| {
        let module: Module<FFT64Ref> = Module::<FFT64Ref>::new(8);
        let mut so: ScratchOwned<FFT64Ref> = ScratchOwned::alloc(64);
        let lo = so.data.as_ref().as_ptr() as usize;
        let scratch = so.borrow();
        let (v, _rem) = scratch.take_vec_znx_dft::<_, NTT120Ref>(&module, 1, 1); // takes 8*8 = 64 B
        let p = v.at_ptr(0, 0) as usize; // at(0,0) = 8 Q120bScalar = 256 B
        let span = v.n() * std::mem::size_of::<<NTT120Ref as Backend>::ScalarPrep>();
        if p < lo || p + span > lo + 64 {
            return Err(format!(
                "take_vec_znx_dft::<Module<FFT64Ref>, NTT120Ref>(1,1) on a 64 B scratch: at(0,0) spans {span} B"
            ));
        }
        Ok(())
    });
    assert!(r.is_ok(), "{}", r.unwrap_err());
}
