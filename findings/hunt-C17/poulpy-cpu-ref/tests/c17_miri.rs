//! C17 — tiny programs meant to be run under miri, ONE TEST PER INVOCATION (miri stops the
//! process at the first undefined behaviour):
//!
//!   cargo +nightly miri test --offline -p poulpy-cpu-ref --test c17_miri -- <test name>
//!
//! The aligned allocator has a documented layout mismatch on deallocation (lib.rs, "CRITICAL-2");
//! miri reports it on the first drop of any `alloc_aligned` buffer. To see anything else every
//! object created by the tests is leaked (`forget`), see `known_dealloc_layout_mismatch`.

use std::mem::forget;

use poulpy_cpu_ref::{FFT64Ref, NTT120Ref};
use poulpy_hal::{
    api::*,
    layouts::{FillUniform, MatZnx, Module, Scratch, ScratchOwned, VecZnx, ZnxView, ZnxViewMut},
    source::Source,
};

/// Known / documented: Vec<u8> allocated with align 64, freed with align 1.
#[test]
fn known_dealloc_layout_mismatch() {
    let v = VecZnx::alloc(4, 1, 1);
    drop(v);
}

/// `std::alloc::alloc` with a zero-sized layout (GlobalAlloc contract: UB).
#[test]
fn zero_sized_vec_znx_alloc() {
    let v = VecZnx::alloc(4, 1, 0);
    assert_eq!(v.raw().len(), 0);
    forget(v);
}

#[test]
fn zero_sized_scratch_alloc() {
    let s: ScratchOwned<FFT64Ref> = ScratchOwned::alloc(0);
    forget(s);
}

/// After an exact-size take the remainder is empty and sits at a non-64-aligned address; the next
/// (zero-byte) take computes `ptr.add(align_offset)` past the end of the allocation.
/// The window is a whole 72-byte, 64-aligned allocation (what `Vec<u8>`/`Box<[u8]>` of 72 bytes may be).
#[test]
fn scratch_zero_take_after_exact_take() {
    let layout = std::alloc::Layout::from_size_align(72, 64).unwrap();
    let p = unsafe { std::alloc::alloc_zeroed(layout) };
    let win: &mut [u8] = unsafe { std::slice::from_raw_parts_mut(p, 72) };
    let scratch: &mut Scratch<FFT64Ref> = Scratch::<FFT64Ref>::from_bytes(win);
    let (_a, rem) = scratch.take_slice::<u8>(72); // exact
    assert_eq!(rem.available(), 0);
    let (b, _rem2) = rem.take_slice::<i64>(0); // zero-byte take on the empty, unaligned remainder
    assert_eq!(b.len(), 0);
    unsafe { std::alloc::dealloc(p, layout) };
}

/// `Clone` / `to_owned_deep` copy the bytes into a plain `Vec<u8>` (alignment 1).
#[test]
fn clone_then_at() {
    use poulpy_hal::layouts::ToOwnedDeep;
    let mut v = VecZnx::alloc(1, 1, 1);
    v.at_mut(0, 0)[0] = 7;
    for _ in 0..16 {
        let c = v.clone();
        assert_eq!(c.at(0, 0)[0], 7);
        let d = v.to_owned_deep();
        assert_eq!(d.at(0, 0)[0], 7);
        forget(c);
        forget(d);
    }
    forget(v);
}

fn rand_vec(n: usize, cols: usize, size: usize, seed: u8) -> VecZnx<Vec<u8>> {
    let mut v = VecZnx::alloc(n, cols, size);
    let mut s = Source::new([seed; 32]);
    v.fill_uniform(10, &mut s);
    v
}

macro_rules! pipeline {
    ($name:ident, $B:ty, $n:expr, $svp_apply_dft:expr) => {
        /// A complete valid pipeline on tiny shapes: everything here must be UB-free.
        #[test]
        fn $name() {
            type B = $B;
            let n: usize = $n;
            let m: Module<B> = Module::<B>::new(n as u64);
            let base2k = 12;
            let mut so: ScratchOwned<B> = ScratchOwned::alloc(1 << 16);
            // vec_znx
            let a = rand_vec(n, 2, 3, 1);
            let b = rand_vec(n, 2, 2, 2);
            let mut r = VecZnx::alloc(n, 2, 3);
            m.vec_znx_add_into(&mut r, 1, &a, 0, &b, 1);
            m.vec_znx_rotate(3, &mut r, 0, &a, 1);
            m.vec_znx_automorphism(5, &mut r, 0, &a, 1);
            m.vec_znx_normalize(&mut r, base2k, 1, 0, &a, base2k, 0, so.borrow());
            m.vec_znx_rsh(base2k, 17, &mut r, 1, &a, 0, so.borrow());
            m.vec_znx_lsh_assign(base2k, 5, &mut r, 1, so.borrow());
            m.vec_znx_rotate_assign(-3, &mut r, 1, so.borrow());
            m.vec_znx_automorphism_assign(-5, &mut r, 1, so.borrow());
            // dft / idft, all three inverse forms
            let mut d = m.vec_znx_dft_alloc(2, 3);
            m.vec_znx_dft_apply(1, 0, &mut d, 0, &a, 0);
            m.vec_znx_dft_apply(2, 1, &mut d, 1, &a, 1);
            let mut big = m.vec_znx_big_alloc(2, 3);
            m.vec_znx_idft_apply(&mut big, 0, &d, 0, so.borrow());
            m.vec_znx_idft_apply_tmpa(&mut big, 1, &mut d, 1);
            m.vec_znx_big_normalize(&mut r, base2k, 0, 0, &big, base2k, 0, so.borrow());
            let mut d2 = m.vec_znx_dft_alloc(2, 3);
            m.vec_znx_dft_apply(1, 0, &mut d2, 0, &a, 0);
            m.vec_znx_dft_apply(1, 0, &mut d2, 1, &a, 1);
            let big2 = m.vec_znx_idft_apply_consume(d2);
            m.vec_znx_big_normalize(&mut r, base2k, 0, 1, &big2, base2k, 1, so.borrow());
            // consume on a scratch-carved view
            {
                let s = so.borrow();
                let (mut dv, s2) = s.take_vec_znx_dft::<_, B>(&m, 2, 2);
                m.vec_znx_dft_apply(1, 0, &mut dv, 0, &a, 0);
                m.vec_znx_dft_apply(1, 0, &mut dv, 1, &a, 1);
                let bv = m.vec_znx_idft_apply_consume(dv);
                m.vec_znx_big_normalize(&mut r, base2k, 0, 1, &bv, base2k, 1, s2);
            }
            // svp
            let mut sc = poulpy_hal::layouts::ScalarZnx::alloc(n, 1);
            sc.fill_uniform(10, &mut Source::new([5u8; 32]));
            let mut pp = m.svp_ppol_alloc(1);
            m.svp_prepare(&mut pp, 0, &sc, 0);
            let mut d3 = m.vec_znx_dft_alloc(2, 3);
            if $svp_apply_dft {
                // NTT120's svp_apply_dft allocates and DROPS a temporary (documented dealloc-layout mismatch)
                m.svp_apply_dft(&mut d3, 0, &pp, 0, &a, 0);
            }
            m.svp_apply_dft_to_dft(&mut d3, 1, &pp, 0, &d, 0);
            m.svp_apply_dft_to_dft_assign(&mut d3, 1, &pp, 0);
            // vmp (odd sizes, 2 input columns)
            let (rows, ci, co, ps) = (3usize, 2usize, 2usize, 3usize);
            let mut mat = MatZnx::alloc(n, rows, ci, co, ps);
            mat.fill_uniform(10, &mut Source::new([4u8; 32]));
            let mut pm = m.vmp_pmat_alloc(rows, ci, co, ps);
            m.vmp_prepare(&mut pm, &mat, so.borrow());
            let mut res = m.vec_znx_dft_alloc(co, 3);
            m.vmp_apply_dft(&mut res, &a, &pm, so.borrow());
            for lo in 0..4 {
                m.vmp_apply_dft_to_dft(&mut res, &d, &pm, lo, so.borrow());
            }
            // convolution
            let mut l = m.cnv_pvec_left_alloc(2, 3);
            let mut rr = m.cnv_pvec_right_alloc(2, 2);
            m.cnv_prepare_left(&mut l, &a, -1, so.borrow());
            m.cnv_prepare_right(&mut rr, &b, 0xFF, so.borrow());
            let mut cres = m.vec_znx_dft_alloc(1, 4);
            for off in 0..5 {
                m.cnv_apply_dft(off, &mut cres, 0, &l, 1, &rr, 0, so.borrow());
                m.cnv_pairwise_apply_dft(off, &mut cres, 0, &l, &rr, 0, 1, so.borrow());
            }
            let mut cbig = m.vec_znx_big_alloc(1, 4);
            m.cnv_by_const_apply(1, &mut cbig, 0, &a, 1, &[1i64, -2, 3], so.borrow());
            forget((a, b, r, d, big, big2, sc, pp, d3, mat, pm, res, l, rr, cres, cbig, so, m));
        }
    };
}

pipeline!(pipeline_fft64_n8, FFT64Ref, 8, true);
pipeline!(pipeline_fft64_n16, FFT64Ref, 16, true);
pipeline!(pipeline_ntt120_n2, NTT120Ref, 2, false);
pipeline!(pipeline_ntt120_n8, NTT120Ref, 8, false);

/// `TakeSlice::take_slice::<T>` is generic over ANY `T` (no `Pod` bound): the scratch bytes are handed
/// out as `&mut [T]` whatever they contain. With `T = &u64` on a zeroed scratch this is a null reference.
#[test]
fn take_slice_of_non_pod_type() {
    let mut buf = vec![0u8; 256];
    let scratch: &mut Scratch<FFT64Ref> = Scratch::<FFT64Ref>::from_bytes(&mut buf);
    let (s, _) = scratch.take_slice::<&'static u64>(1);
    let r: &u64 = s[0];
    assert_eq!(r as *const u64 as usize, 0);
}

/// `poulpy_hal::cast::<T, V>` checks size and alignment only: any bit pattern becomes a `V`.
#[test]
fn cast_to_type_with_invalid_bit_patterns() {
    let bytes = [2u8];
    let b: &[bool] = poulpy_hal::cast::<u8, bool>(&bytes);
    assert!(b[0] as u8 == 2);
}
