//! C17 — operation level, reference backends.
//!
//! For every HAL operation and a grid of small shapes (N from 1/2 up to 16, 0..3 limbs,
//! 1..3 columns, receiver larger/smaller than the operand, objects shrunk with `set_size`)
//! the harness checks three things that a memory checker would otherwise have to check:
//!
//!  1. the call neither panics on an index / debug-only guard nor aborts (a panic that comes
//!     from an `index out of bounds`, an `as_arr` debug assertion or an arithmetic overflow is an
//!     out-of-bounds access that only a debug build stops);
//!  2. the result of an out-of-place operation does not depend on the previous contents of
//!     the receiver column nor on the contents of the scratch window ("no result depends on
//!     uninitialised bytes"): the call is repeated with three different garbage fills and the
//!     receiver column must be bit-identical;
//!  3. the scratch window has *exactly* the number of bytes the matching `*_tmp_bytes` reports
//!     and sits inside a larger buffer whose guard bytes must stay intact.
//!
//! Failures are collected per operation and reported together.

#![allow(clippy::too_many_arguments)]

include!("c17_common/hal_ops_harness.rs");

backend_suite!(fft64, poulpy_cpu_ref::FFT64Ref, [2usize, 4, 8, 16], [2usize, 4, 8, 16, 32]);
backend_suite!(ntt120, poulpy_cpu_ref::NTT120Ref, [1usize, 2, 4, 8, 16], [1usize, 2, 4, 8, 16]);

/// FFT64: the smallest ring degree. `Module::new(1)` must either work or be rejected by an
/// assertion that names the restriction (it must not underflow).
#[test]
fn fft64_module_new_n1() {
    install_hook();
    let r = catch_unwind(|| Module::<poulpy_cpu_ref::FFT64Ref>::new(1));
    if r.is_err() {
        let m = LAST_PANIC.with(|l| l.borrow().clone());
        assert!(
            !m.contains("overflow"),
            "Module::<FFT64Ref>::new(1) dies on an arithmetic overflow instead of a documented restriction: {m}"
        );
    }
}

// ───────────── targeted reproductions of what the grid reports ─────────────

mod targeted {
    use super::*;
    use poulpy_cpu_ref::{FFT64Ref, NTT120Ref};
    use poulpy_hal::layouts::ZnxViewMut;

    fn win<B: Backend>(w: &mut Window) -> &mut Scratch<B>
    where
        Scratch<B>: ScratchFromBytes<B>,
    {
        Scratch::<B>::from_bytes(w.bytes())
    }

    /// FFT64 `cnv_apply_dft(res, res_col = 1, ..)` with a 2-column receiver: the product is stored with
    /// `reim4_save_1blk_contiguous(m, min_size, blk, res.raw_mut(), tmp)`, i.e. as if the receiver had one
    /// column and `res_col == 0`. Column `res_col` keeps its previous bytes, column 0 is overwritten.
    /// Oracle: same call into a 1-column receiver; frame: column 0 untouched.
    #[test]
    fn fft64_cnv_apply_dft_ignores_res_col() {
        let n = 8usize;
        let m: Module<FFT64Ref> = Module::<FFT64Ref>::new(n as u64);
        let a = rand_vec(n, 1, 2, 2, 1);
        let b = rand_vec(n, 1, 2, 2, 2);
        let mut l = m.cnv_pvec_left_alloc(1, 2);
        let mut r = m.cnv_pvec_right_alloc(1, 2);
        let mut w = Window::new(m.cnv_prepare_left_tmp_bytes(2, 2), 0);
        m.cnv_prepare_left(&mut l, &a, -1, win::<FFT64Ref>(&mut w));
        let mut w = Window::new(m.cnv_prepare_right_tmp_bytes(2, 2), 0);
        m.cnv_prepare_right(&mut r, &b, -1, win::<FFT64Ref>(&mut w));

        let mut want = m.vec_znx_dft_alloc(1, 2);
        let mut w = Window::new(m.cnv_apply_dft_tmp_bytes(0, 2, 2, 2), 0);
        m.cnv_apply_dft(0, &mut want, 0, &l, 0, &r, 0, win::<FFT64Ref>(&mut w));

        let mut res = m.vec_znx_dft_alloc(2, 2);
        res.raw_mut().fill(-1.5);
        let mut w = Window::new(m.cnv_apply_dft_tmp_bytes(0, 2, 2, 2), 0);
        m.cnv_apply_dft(0, &mut res, 1, &l, 0, &r, 0, win::<FFT64Ref>(&mut w));

        let col0_untouched = (0..2).all(|j| res.at(0, j).iter().all(|&x| x == -1.5));
        let col1_ok = (0..2).all(|j| res.at(1, j) == want.at(0, j));
        assert!(
            col0_untouched && col1_ok,
            "cnv_apply_dft(res_col=1) on a 2-column receiver: column 0 untouched = {col0_untouched}, column 1 holds the product = {col1_ok}"
        );
    }

    /// NTT120 with N = 1 (`Module::new(1)` is accepted): the x2-block kernels iterate over `n / 2 == 0`
    /// blocks, so `cnv_apply_dft` returns without writing limbs `0..min_size` of the receiver.
    #[test]
    fn ntt120_n1_cnv_apply_dft_leaves_receiver_unwritten() {
        let n = 1usize;
        let m: Module<NTT120Ref> = Module::<NTT120Ref>::new(n as u64);
        let a = rand_vec(n, 1, 1, 1, 1);
        let b = rand_vec(n, 1, 1, 1, 2);
        let mut l = m.cnv_pvec_left_alloc(1, 1);
        let mut r = m.cnv_pvec_right_alloc(1, 1);
        let mut w = Window::new(m.cnv_prepare_left_tmp_bytes(1, 1), 0);
        m.cnv_prepare_left(&mut l, &a, -1, win::<NTT120Ref>(&mut w));
        let mut w = Window::new(m.cnv_prepare_right_tmp_bytes(1, 1), 0);
        m.cnv_prepare_right(&mut r, &b, -1, win::<NTT120Ref>(&mut w));
        let mut outs = vec![];
        for f in [0x00u8, 0xFF] {
            let mut res = m.vec_znx_dft_alloc(1, 1);
            res.data_mut().as_mut().fill(f);
            let mut w = Window::new(m.cnv_apply_dft_tmp_bytes(0, 1, 1, 1), 0);
            m.cnv_apply_dft(0, &mut res, 0, &l, 0, &r, 0, win::<NTT120Ref>(&mut w));
            outs.push(bytemuck::cast_slice::<_, u8>(res.raw()).to_vec());
        }
        assert!(outs[0] == outs[1], "NTT120 N=1 cnv_apply_dft: the receiver is returned with its previous bytes");
    }

    /// FFT64 with N in {2, 4} (`Module::new` accepts them): the reim4 kernels iterate over `m / 4 == 0`
    /// blocks. `vmp_*` guards this with `assert!(n >= 8)` under `cfg(debug_assertions)` only; the convolution
    /// family has no guard at all. Release: receiver returned with its previous bytes.
    #[test]
    fn fft64_n4_cnv_apply_dft_leaves_receiver_unwritten() {
        let n = 4usize;
        let m: Module<FFT64Ref> = Module::<FFT64Ref>::new(n as u64);
        let a = rand_vec(n, 1, 1, 1, 1);
        let b = rand_vec(n, 1, 1, 1, 2);
        let mut l = m.cnv_pvec_left_alloc(1, 1);
        let mut r = m.cnv_pvec_right_alloc(1, 1);
        let mut w = Window::new(m.cnv_prepare_left_tmp_bytes(1, 1), 0);
        m.cnv_prepare_left(&mut l, &a, -1, win::<FFT64Ref>(&mut w));
        let mut w = Window::new(m.cnv_prepare_right_tmp_bytes(1, 1), 0);
        m.cnv_prepare_right(&mut r, &b, -1, win::<FFT64Ref>(&mut w));
        let mut outs = vec![];
        for f in [0x00u8, 0xFF] {
            let mut res = m.vec_znx_dft_alloc(1, 1);
            res.data_mut().as_mut().fill(f);
            let mut w = Window::new(m.cnv_apply_dft_tmp_bytes(0, 1, 1, 1), 0);
            m.cnv_apply_dft(0, &mut res, 0, &l, 0, &r, 0, win::<FFT64Ref>(&mut w));
            outs.push(bytemuck::cast_slice::<_, u8>(res.raw()).to_vec());
        }
        assert!(outs[0] == outs[1], "FFT64 N=4 cnv_apply_dft: the receiver is returned with its previous bytes");
    }

    /// `cnv_pairwise_apply_dft_tmp_bytes(cnv_offset, res_size, ..)` forwards `(res_size, cnv_offset, ..)` to the
    /// backend (poulpy-hal/src/delegates/convolution.rs:99): with `cnv_offset = 0` it reports the size for a
    /// 0-limb receiver, and the operation then panics on an exact-size window.
    #[test]
    fn cnv_pairwise_tmp_bytes_arguments_swapped() {
        let m: Module<FFT64Ref> = Module::<FFT64Ref>::new(8);
        assert_eq!(
            m.cnv_pairwise_apply_dft_tmp_bytes(0, 3, 2, 2),
            m.cnv_apply_dft_tmp_bytes(0, 3, 2, 2) + (2 + 2) * 8 * 8,
            "cnv_pairwise_apply_dft_tmp_bytes(cnv_offset=0, res_size=3, 2, 2) vs documented formula"
        );
    }
}
