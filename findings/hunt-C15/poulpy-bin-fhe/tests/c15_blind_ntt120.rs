//! C15 - blind rotation / selection / retrieval, NTT120Ref backend.
type BE = poulpy_cpu_ref::NTT120Ref;
include!("c15_common/blind.rs");
