//! C15 - word operations through the bootstrapped pipeline, FFT64Ref backend.
type BE = poulpy_cpu_ref::FFT64Ref;
include!("c15_common/word_ops.rs");
