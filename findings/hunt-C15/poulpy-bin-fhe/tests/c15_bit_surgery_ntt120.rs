//! C15 - bit surgery on packed integers, NTT120Ref backend.
type BE = poulpy_cpu_ref::NTT120Ref;
include!("c15_common/bit_surgery.rs");
