//! C15 - defect reproducers (expected to FAIL on the unmodified library), FFT64Ref backend.
type BE = poulpy_cpu_ref::FFT64Ref;
include!("c15_common/defects.rs");
