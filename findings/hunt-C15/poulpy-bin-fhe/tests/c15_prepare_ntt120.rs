//! C15 - circuit bootstrapping of packed integers, NTT120Ref backend.
type BE = poulpy_cpu_ref::NTT120Ref;
include!("c15_common/prepare.rs");
