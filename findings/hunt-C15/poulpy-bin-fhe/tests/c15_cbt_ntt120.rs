//! C15 - circuit bootstrapping LWE -> GGSW, NTT120Ref backend.
type BE = poulpy_cpu_ref::NTT120Ref;
include!("c15_common/cbt.rs");
