//! C15 - blind rotation / selection / retrieval, FFT64Ref backend.
type BE = poulpy_cpu_ref::FFT64Ref;
include!("c15_common/blind.rs");
