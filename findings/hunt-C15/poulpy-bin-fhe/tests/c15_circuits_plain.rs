//! C15 - plaintext model of the compiled BDD circuits.
//!
//! The generated circuit tables are `pub(crate)`; they are included here
//! verbatim through `#[path]` (no library source is modified) and interpreted
//! over plain bits with exactly the level semantics of
//! `bdd_arithmetic::eval::eval_level` (state = [0, 1, 0, ...], ping-pong of two
//! levels, `Node::None` leaves the slot untouched).  The oracle is the plain
//! Rust u32 operation.

#![allow(dead_code)]

mod bdd_arithmetic {
    pub use poulpy_bin_fhe::bdd_arithmetic::{BitCircuit, BitCircuitFamily, BitCircuitInfo, Circuit, Node};
}

#[path = "../src/bdd_arithmetic/circuits/u32/add_codegen.rs"]
mod add_codegen;
#[path = "../src/bdd_arithmetic/circuits/u32/and_codegen.rs"]
mod and_codegen;
#[path = "../src/bdd_arithmetic/circuits/u32/identity_codgen.rs"]
mod identity_codgen;
#[path = "../src/bdd_arithmetic/circuits/u32/or_codegen.rs"]
mod or_codegen;
#[path = "../src/bdd_arithmetic/circuits/u32/sll_codegen.rs"]
mod sll_codegen;
#[path = "../src/bdd_arithmetic/circuits/u32/slt_codegen.rs"]
mod slt_codegen;
#[path = "../src/bdd_arithmetic/circuits/u32/sltu_codegen.rs"]
mod sltu_codegen;
#[path = "../src/bdd_arithmetic/circuits/u32/sra_codegen.rs"]
mod sra_codegen;
#[path = "../src/bdd_arithmetic/circuits/u32/srl_codegen.rs"]
mod srl_codegen;
#[path = "../src/bdd_arithmetic/circuits/u32/sub_codegen.rs"]
mod sub_codegen;
#[path = "../src/bdd_arithmetic/circuits/u32/xor_codegen.rs"]
mod xor_codegen;

use poulpy_bin_fhe::bdd_arithmetic::{GetBitCircuitInfo, Node};

/// Plain interpretation of one output-bit circuit; mirrors `eval_level`.
/// Returns (bit, used_stale) where used_stale tells whether a slot that was never
/// written at the previous level (Node::None) was read.
fn eval_bit(nodes: &[Node], state_size: usize, input: &dyn Fn(usize) -> bool) -> (bool, bool) {
    assert!(state_size >= 2, "state_size {state_size} < 2: the constant 1 would live in next_level");
    assert!(nodes.len() % state_size == 0);
    let mut level = vec![false; 2 * state_size];
    // validity tracking: which slots hold a value written at the right level
    let mut valid = vec![false; 2 * state_size];
    level[1] = true;
    valid[0] = true;
    valid[1] = true;
    let mut prev_off = 0usize;
    let mut next_off = state_size;
    let mut stale = false;
    let n_lvls = nodes.len() / state_size;
    for (l, chunk) in nodes.chunks_exact(state_size).enumerate() {
        if l + 1 == n_lvls {
            // last chunk: [CMUX, NONE, ...]
            match &chunk[0] {
                Node::Cmux(i, hi, lo) => {
                    if !valid[prev_off + *hi] || !valid[prev_off + *lo] {
                        stale = true;
                    }
                    let r = if input(*i) { level[prev_off + *hi] } else { level[prev_off + *lo] };
                    for n in &chunk[1..] {
                        assert!(matches!(n, Node::None), "last level must be [CMUX, NONE..]");
                    }
                    return (r, stale);
                }
                _ => panic!("invalid last node"),
            }
        }
        for (j, node) in chunk.iter().enumerate() {
            match node {
                Node::Cmux(i, hi, lo) => {
                    if !valid[prev_off + *hi] || !valid[prev_off + *lo] {
                        stale = true;
                    }
                    level[next_off + j] = if input(*i) { level[prev_off + *hi] } else { level[prev_off + *lo] };
                    valid[next_off + j] = true;
                }
                Node::Copy => {
                    if !valid[prev_off + j] {
                        stale = true;
                    }
                    level[next_off + j] = level[prev_off + j];
                    valid[next_off + j] = true;
                }
                Node::None => {
                    valid[next_off + j] = false;
                }
            }
        }
        std::mem::swap(&mut prev_off, &mut next_off);
    }
    unreachable!()
}

fn eval_2w<C: GetBitCircuitInfo>(c: &C, a: u32, b: u32) -> (u32, bool) {
    let input = |i: usize| -> bool {
        let w = i / 32;
        let k = i % 32;
        assert!(w < 2);
        (([a, b][w] >> k) & 1) == 1
    };
    let mut out = 0u32;
    let mut stale = false;
    assert!(c.output_size() <= 32);
    assert!(c.input_size() <= 64);
    for bit in 0..c.output_size() {
        let (nodes, st) = c.get_circuit(bit);
        if st == 0 {
            continue;
        }
        // every selector index is inside the declared input size
        for n in nodes {
            if let Node::Cmux(i, hi, lo) = n {
                assert!(*i < c.input_size(), "selector {i} >= input_size {}", c.input_size());
                assert!(*hi < st && *lo < st);
            }
        }
        let (r, s) = eval_bit(nodes, st, &input);
        stale |= s;
        if r {
            out |= 1 << bit;
        }
    }
    (out, stale)
}

fn domain() -> Vec<u32> {
    let mut v: Vec<u32> = vec![
        0,
        1,
        2,
        3,
        0x7FFF_FFFF,
        0x8000_0000,
        0x8000_0001,
        0xFFFF_FFFF,
        0xFFFF_FFFE,
        0x5555_5555,
        0xAAAA_AAAA,
        0x0F0F_0F0F,
        0xF0F0_F0F0,
        0x00FF_00FF,
        0xFF00_FF00,
        0x0000_FFFF,
        0xFFFF_0000,
        0x1234_5678,
        0xDEAD_BEEF,
    ];
    for i in 0..32 {
        v.push(1 << i);
        v.push(!(1u32 << i));
        v.push((1u32 << i).wrapping_sub(1));
    }
    for s in 0..64u32 {
        v.push(s);
    }
    // a few pseudo random values (xorshift)
    let mut x: u32 = 0x9E37_79B9;
    for _ in 0..40 {
        x ^= x << 13;
        x ^= x >> 17;
        x ^= x << 5;
        v.push(x);
    }
    v.sort();
    v.dedup();
    v
}

fn check_2w<C: GetBitCircuitInfo>(name: &str, c: &C, oracle: impl Fn(u32, u32) -> u32) {
    let d = domain();
    let mut stale_any = false;
    let mut fails = 0;
    for &a in &d {
        for &b in &d {
            let (have, stale) = eval_2w(c, a, b);
            stale_any |= stale;
            let want = oracle(a, b);
            if have != want {
                fails += 1;
                if fails < 10 {
                    eprintln!("{name}: a={a:#010x} b={b:#010x} have={have:#010x} want={want:#010x}");
                }
            }
        }
    }
    assert_eq!(fails, 0, "{name}: {fails} mismatches");
    assert!(!stale_any, "{name}: circuit reads a slot left unwritten by Node::None");
}

#[test]
fn plain_add() {
    check_2w("add", &add_codegen::OUTPUT_CIRCUITS, |a, b| a.wrapping_add(b));
}
#[test]
fn plain_sub() {
    check_2w("sub", &sub_codegen::OUTPUT_CIRCUITS, |a, b| a.wrapping_sub(b));
}
#[test]
fn plain_and() {
    check_2w("and", &and_codegen::OUTPUT_CIRCUITS, |a, b| a & b);
}
#[test]
fn plain_or() {
    check_2w("or", &or_codegen::OUTPUT_CIRCUITS, |a, b| a | b);
}
#[test]
fn plain_xor() {
    check_2w("xor", &xor_codegen::OUTPUT_CIRCUITS, |a, b| a ^ b);
}
#[test]
fn plain_sll() {
    check_2w("sll", &sll_codegen::OUTPUT_CIRCUITS, |a, b| a.wrapping_shl(b));
}
#[test]
fn plain_srl() {
    check_2w("srl", &srl_codegen::OUTPUT_CIRCUITS, |a, b| a.wrapping_shr(b));
}
#[test]
fn plain_sra() {
    check_2w("sra", &sra_codegen::OUTPUT_CIRCUITS, |a, b| (a as i32).wrapping_shr(b) as u32);
}
#[test]
fn plain_slt() {
    check_2w("slt", &slt_codegen::OUTPUT_CIRCUITS, |a, b| ((a as i32) < (b as i32)) as u32);
}
#[test]
fn plain_sltu() {
    check_2w("sltu", &sltu_codegen::OUTPUT_CIRCUITS, |a, b| (a < b) as u32);
}
#[test]
fn plain_identity() {
    let c = &identity_codgen::OUTPUT_CIRCUITS;
    assert_eq!(c.input_size(), 32);
    for &a in &domain() {
        let (have, stale) = eval_2w(c, a, !a);
        assert_eq!(have, a);
        assert!(!stale);
    }
}

/// The scratch declared for an evaluation is driven by max_state_size(): it must dominate
/// every per-bit state size (the per-thread arena is carved with it).
#[test]
fn max_state_size_dominates() {
    fn chk<C: GetBitCircuitInfo>(c: &C) {
        let m = c.max_state_size();
        for i in 0..c.output_size() {
            let (nodes, st) = c.get_circuit(i);
            assert!(st <= m);
            assert!(st == 0 || nodes.len() % st == 0);
        }
    }
    chk(&add_codegen::OUTPUT_CIRCUITS);
    chk(&sub_codegen::OUTPUT_CIRCUITS);
    chk(&and_codegen::OUTPUT_CIRCUITS);
    chk(&or_codegen::OUTPUT_CIRCUITS);
    chk(&xor_codegen::OUTPUT_CIRCUITS);
    chk(&sll_codegen::OUTPUT_CIRCUITS);
    chk(&srl_codegen::OUTPUT_CIRCUITS);
    chk(&sra_codegen::OUTPUT_CIRCUITS);
    chk(&slt_codegen::OUTPUT_CIRCUITS);
    chk(&sltu_codegen::OUTPUT_CIRCUITS);
    chk(&identity_codgen::OUTPUT_CIRCUITS);
}
