//! C15 - circuit bootstrapping of packed integers, FFT64Ref backend.
type BE = poulpy_cpu_ref::FFT64Ref;
include!("c15_common/prepare.rs");
