//! C15 - word operations through the bootstrapped pipeline, NTT120Ref backend.
type BE = poulpy_cpu_ref::NTT120Ref;
include!("c15_common/word_ops.rs");
