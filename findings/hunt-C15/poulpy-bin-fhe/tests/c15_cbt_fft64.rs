//! C15 - circuit bootstrapping LWE -> GGSW, FFT64Ref backend.
type BE = poulpy_cpu_ref::FFT64Ref;
include!("c15_common/cbt.rs");
