//! C15 - bit surgery on packed integers, FFT64Ref backend.
type BE = poulpy_cpu_ref::FFT64Ref;
include!("c15_common/bit_surgery.rs");
