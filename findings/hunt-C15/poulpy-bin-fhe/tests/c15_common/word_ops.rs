// Word operations through the full pipeline:
//   encrypt (packed GLWE) -> circuit bootstrapping (prepare) -> BDD op -> decrypt
// and chains of them.  `BE` is defined by the including file.

include!("ctx.rs");

use std::sync::LazyLock;

static CTX_LIB: LazyLock<Ctx> = LazyLock::new(|| Ctx::new(P::LIB));
static CTX_RANK1: LazyLock<Ctx> = LazyLock::new(|| Ctx::new(P::RANK1));

#[derive(Clone, Copy, Debug, PartialEq, Eq)]
enum Op {
    Add,
    Sub,
    Sll,
    Srl,
    Sra,
    Slt,
    Sltu,
    Or,
    And,
    Xor,
}

const OPS: [Op; 10] = [
    Op::Add,
    Op::Sub,
    Op::Sll,
    Op::Srl,
    Op::Sra,
    Op::Slt,
    Op::Sltu,
    Op::Or,
    Op::And,
    Op::Xor,
];

fn plain(op: Op, a: u32, b: u32) -> u32 {
    match op {
        Op::Add => a.wrapping_add(b),
        Op::Sub => a.wrapping_sub(b),
        Op::Sll => a.wrapping_shl(b),
        Op::Srl => a.wrapping_shr(b),
        Op::Sra => (a as i32).wrapping_shr(b) as u32,
        Op::Slt => ((a as i32) < (b as i32)) as u32,
        Op::Sltu => (a < b) as u32,
        Op::Or => a | b,
        Op::And => a & b,
        Op::Xor => a ^ b,
    }
}

type Prep = FheUintPrepared<DeviceBuf<BE>, u32, BE>;

/// threads == 0: single-thread entry point; otherwise the `_multi_thread` one.
/// exact: allocate exactly the advertised scratch and fill it with garbage.
fn apply(ctx: &Ctx, op: Op, res: &mut FheUint<Vec<u8>, u32>, a: &Prep, b: &Prep, threads: usize, exact: bool) {
    let m = &ctx.module;
    let k = &ctx.key;
    let gi = ctx.p.glwe_infos();
    let si = ctx.p.ggsw_infos();
    macro_rules! run {
        ($st:ident, $mt:ident, $stb:ident, $mtb:ident) => {{
            let bytes = if exact {
                if threads == 0 {
                    res.$stb(m, &gi, &si, k)
                } else {
                    res.$mtb(m, threads, &gi, &si, k)
                }
            } else {
                1 << 23
            };
            let mut scratch: ScratchOwned<BE> = ScratchOwned::alloc(bytes);
            dirty(&mut scratch, 0x5a);
            if threads == 0 {
                res.$st(m, a, b, k, scratch.borrow());
            } else {
                res.$mt(threads, m, a, b, k, scratch.borrow());
            }
        }};
    }
    match op {
        Op::Add => run!(add, add_multi_thread, add_tmp_bytes, add_multi_thread_tmp_bytes),
        Op::Sub => run!(sub, sub_multi_thread, sub_tmp_bytes, sub_multi_thread_tmp_bytes),
        Op::Sll => run!(sll, sll_multi_thread, sll_tmp_bytes, sll_multi_thread_tmp_bytes),
        Op::Srl => run!(srl, srl_multi_thread, srl_tmp_bytes, srl_multi_thread_tmp_bytes),
        Op::Sra => run!(sra, sra_multi_thread, sra_tmp_bytes, sra_multi_thread_tmp_bytes),
        Op::Slt => run!(slt, slt_multi_thread, slt_tmp_bytes, slt_multi_thread_tmp_bytes),
        Op::Sltu => run!(sltu, sltu_multi_thread, sltu_tmp_bytes, sltu_multi_thread_tmp_bytes),
        Op::Or => run!(or, or_multi_thread, or_tmp_bytes, or_multi_thread_tmp_bytes),
        Op::And => run!(and, and_multi_thread, and_tmp_bytes, and_multi_thread_tmp_bytes),
        Op::Xor => run!(xor, xor_multi_thread, xor_tmp_bytes, xor_multi_thread_tmp_bytes),
    }
}

fn dirty_res(ctx: &Ctx) -> FheUint<Vec<u8>, u32> {
    // output buffer holding an unrelated valid ciphertext
    ctx.enc::<u32>(0xDEAD_BEEF, 99)
}

/// All operations x boundary classes through the bootstrapped pipeline.
fn all_ops_pipeline(ctx: &Ctx) {
    let vals = boundary_u32();
    // prepare each boundary value once through circuit bootstrapping
    let preps: Vec<Prep> = vals
        .iter()
        .enumerate()
        .map(|(i, v)| ctx.prep(&ctx.enc::<u32>(*v, i as u8)))
        .collect();
    // the prepared value decrypts to the value
    for (v, p) in vals.iter().zip(preps.iter()) {
        assert_eq!(ctx.dec_prep(p), *v, "prepare({v:#x})");
    }
    let mut fails = Vec::new();
    for op in OPS {
        for (i, a) in vals.iter().enumerate() {
            for (j, b) in vals.iter().enumerate() {
                let mut res = dirty_res(ctx);
                let threads = (i + j) % 3; // 0 => single thread API
                apply(ctx, op, &mut res, &preps[i], &preps[j], threads, (i + j) % 2 == 0);
                let have = ctx.dec(&res);
                let want = plain(op, *a, *b);
                if have != want {
                    fails.push(format!("{op:?}({a:#x},{b:#x}) = {have:#x} != {want:#x}"));
                }
            }
        }
    }
    assert!(fails.is_empty(), "{} failures, first: {:?}", fails.len(), &fails[..fails.len().min(8)]);
}

#[test]
fn all_ops_pipeline_lib() {
    all_ops_pipeline(&CTX_LIB);
}

#[test]
fn all_ops_pipeline_rank1() {
    all_ops_pipeline(&CTX_RANK1);
}

/// Shift amounts 0..63 on a few words (only the low five bits of b count).
#[test]
fn shifts_all_amounts() {
    let ctx = &*CTX_LIB;
    let words = [0x8000_0001u32, 0xFFFF_FFFF, 0x7654_3210];
    let wp: Vec<Prep> = words.iter().map(|w| ctx.prep(&ctx.enc::<u32>(*w, 3))).collect();
    for s in 0..64u32 {
        let sp = ctx.prep(&ctx.enc::<u32>(s, s as u8));
        for (w, p) in words.iter().zip(wp.iter()) {
            for op in [Op::Sll, Op::Srl, Op::Sra] {
                let mut res = dirty_res(ctx);
                apply(ctx, op, &mut res, p, &sp, 0, false);
                assert_eq!(ctx.dec(&res), plain(op, *w, s), "{op:?}({w:#x},{s})");
            }
        }
    }
}

/// Identity re-bootstraps every bit.
#[test]
fn identity_all_single_bits() {
    let ctx = &*CTX_LIB;
    let mut vals: Vec<u32> = (0..32).map(|i| 1u32 << i).collect();
    vals.extend([0, u32::MAX, 0xAAAA_AAAA, 0x5555_5555]);
    for (i, v) in vals.iter().enumerate() {
        let p = ctx.prep(&ctx.enc::<u32>(*v, i as u8));
        let mut res = dirty_res(ctx);
        let mut scratch: ScratchOwned<BE> = ScratchOwned::alloc(1 << 23);
        dirty(&mut scratch, 7);
        if i % 2 == 0 {
            res.identity(&ctx.module, &p, &ctx.key, scratch.borrow());
        } else {
            res.identity_multi_thread(3, &ctx.module, &p, &ctx.key, scratch.borrow());
        }
        assert_eq!(ctx.dec(&res), *v);
    }
}

/// Short random programs: registers are re-prepared after every operation.
fn programs(ctx: &Ctx, n_prog: usize, len: usize, seed: u8) {
    use rand::Rng;
    let mut rng = Source::new([seed; 32]);
    for prog in 0..n_prog {
        let bvals = boundary_u32();
        let mut regs_plain: Vec<u32> = (0..4)
            .map(|i| {
                if (prog + i) % 2 == 0 {
                    rng.next_u32()
                } else {
                    bvals[(rng.next_u32() as usize) % bvals.len()]
                }
            })
            .collect();
        let mut regs: Vec<Prep> = regs_plain
            .iter()
            .enumerate()
            .map(|(i, v)| ctx.prep(&ctx.enc::<u32>(*v, (prog * 4 + i) as u8)))
            .collect();
        let mut trace = format!("init {regs_plain:x?}");
        for step in 0..len {
            let op = OPS[(rng.next_u32() as usize) % OPS.len()];
            let i = (rng.next_u32() % 4) as usize;
            let j = (rng.next_u32() % 4) as usize;
            let d = (rng.next_u32() % 4) as usize;
            let mut res = dirty_res(ctx);
            apply(ctx, op, &mut res, &regs[i], &regs[j], step % 3, step % 2 == 1);
            let want = plain(op, regs_plain[i], regs_plain[j]);
            trace.push_str(&format!("; r{d}={op:?}(r{i},r{j})={want:#x}"));
            assert_eq!(ctx.dec(&res), want, "program {prog} step {step}: {trace}");
            // re-prepare (circuit bootstrapping of the op output) and store
            regs[d] = ctx.prep(&res);
            regs_plain[d] = want;
            assert_eq!(ctx.dec_prep(&regs[d]), want, "re-prepare, program {prog} step {step}: {trace}");
        }
    }
}

#[test]
fn programs_lib() {
    programs(&CTX_LIB, 6, 8, 21);
}

#[test]
fn programs_rank1() {
    programs(&CTX_RANK1, 4, 8, 22);
}

/// A long chain on one register: noise must not accumulate across re-preparations.
#[test]
fn long_chain() {
    let ctx = &*CTX_LIB;
    let mut x: u32 = 0x1234_5678;
    let one = ctx.prep(&ctx.enc::<u32>(1, 1));
    let c = 0x9E37_79B9u32;
    let cp = ctx.prep(&ctx.enc::<u32>(c, 2));
    let mut xp = ctx.prep(&ctx.enc::<u32>(x, 3));
    for step in 0..24 {
        let (op, other, ov) = match step % 4 {
            0 => (Op::Add, &cp, c),
            1 => (Op::Xor, &cp, c),
            2 => (Op::Sll, &one, 1),
            _ => (Op::Sub, &one, 1),
        };
        let mut res = dirty_res(ctx);
        apply(ctx, op, &mut res, &xp, other, 0, false);
        x = plain(op, x, ov);
        assert_eq!(ctx.dec(&res), x, "step {step}");
        xp = ctx.prep(&res);
    }
}

/// Same prepared operand on both sides; many threads (more than output bits; one-output circuits).
#[test]
fn aliased_operands_and_many_threads() {
    let ctx = &*CTX_LIB;
    let x: u32 = 0xC000_0003;
    let xp = ctx.prep(&ctx.enc::<u32>(x, 1));
    for op in OPS {
        let mut res = dirty_res(ctx);
        apply(ctx, op, &mut res, &xp, &xp, 0, true);
        assert_eq!(ctx.dec(&res), plain(op, x, x), "{op:?}(x, x)");
    }
    let y: u32 = 0x7FFF_FFFF;
    let yp = ctx.prep(&ctx.enc::<u32>(y, 2));
    for threads in [3usize, 5, 7, 16, 31, 32, 33, 64] {
        for op in [Op::Add, Op::Slt, Op::Sltu, Op::Sra, Op::Xor] {
            let mut res = dirty_res(ctx);
            apply(ctx, op, &mut res, &xp, &yp, threads, true);
            assert_eq!(ctx.dec(&res), plain(op, x, y), "{op:?} threads={threads}");
        }
    }
}

/// Output buffer with more / fewer limbs than the layout the scratch was sized for.
#[test]
fn output_precision_differs_from_inputs() {
    let ctx = &*CTX_LIB;
    let a: u32 = 0x89AB_CDEF;
    let b: u32 = 0x0000_0011;
    let ap = ctx.prep(&ctx.enc::<u32>(a, 1));
    let bp = ctx.prep(&ctx.enc::<u32>(b, 2));
    for k in [13u32, 26, 39, 52] {
        let infos = GLWELayout {
            k: TorusPrecision(k),
            ..ctx.p.glwe_infos()
        };
        let mut res: FheUint<Vec<u8>, u32> = FheUint::alloc_from_infos(&infos);
        let mut scratch: ScratchOwned<BE> = ScratchOwned::alloc(1 << 24);
        dirty(&mut scratch, 9);
        res.add(&ctx.module, &ap, &bp, &ctx.key, scratch.borrow());
        assert_eq!(ctx.dec(&res), a.wrapping_add(b), "out k={k}");
        res.sll(&ctx.module, &ap, &bp, &ctx.key, scratch.borrow());
        assert_eq!(ctx.dec(&res), a.wrapping_shl(b), "out k={k}");
        if k >= 26 {
            // and it can be bootstrapped again
            assert_eq!(ctx.dec_prep(&ctx.prep(&res)), a.wrapping_shl(b), "re-prepare out k={k}");
        }
    }
}
