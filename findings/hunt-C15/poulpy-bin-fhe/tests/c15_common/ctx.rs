// Shared context builder for the C15 integration tests.
// The including file defines `type BE = <backend>;` before `include!`-ing this file.

#[allow(unused_imports)]
use poulpy_bin_fhe::{
    bdd_arithmetic::{
        Add, And, BDDEncryptionInfos, BDDKey, BDDKeyLayout, BDDKeyPrepared, FheUint, FheUintPrepared, FheUintPreparedDebug,
        FromBits, GetGGSWBit, Identity, Or, Sll, Slt, Sltu, Sra, Srl, Sub, ToBits, UnsignedInteger, Xor,
    },
    blind_rotation::{BlindRotationKeyLayout, CGGI},
    circuit_bootstrapping::CircuitBootstrappingKeyLayout,
};
#[allow(unused_imports)]
use poulpy_core::{
    EncryptionLayout,
    layouts::{
        Base2K, Degree, Dnum, Dsize, GGLWEToGGSWKeyLayout, GGSWInfos, GGSWLayout, GLWEAutomorphismKeyLayout, GLWEInfos,
        GLWELayout, GLWESecret, GLWESecretPrepared, GLWESecretPreparedFactory, GLWESwitchingKeyLayout, GLWEToLWEKeyLayout,
        LWEInfos, LWESecret, Rank, TorusPrecision,
    },
};
#[allow(unused_imports)]
use poulpy_hal::{
    api::{ModuleN, ModuleNew, ScratchAvailable, ScratchOwnedAlloc, ScratchOwnedBorrow},
    layouts::{DeviceBuf, Module, ScratchOwned},
    source::Source,
};

#[derive(Clone, Copy, Debug)]
#[allow(dead_code)]
pub struct P {
    pub n_glwe: u32,
    pub n_lwe: u32,
    /// 0: binary secret with probability 1/2 (block size 1 in the key), otherwise block-binary
    pub block_size: u32,
    pub rank: u32,
    pub glwe: (u32, u32),
    pub ggsw: (u32, u32, u32, u32),
    pub brk: (u32, u32, u32),
    pub atk: (u32, u32, u32),
    pub tsk: (u32, u32, u32),
    pub ks_glwe: Option<(u32, u32, u32)>,
    pub ks_lwe: (u32, u32, u32),
}

#[allow(dead_code)]
impl P {
    /// Parameters of the library's own test-suite.
    pub const LIB: P = P {
        n_glwe: 256,
        n_lwe: 77,
        block_size: 7,
        rank: 2,
        glwe: (13, 26),
        ggsw: (13, 39, 2, 1),
        brk: (12, 52, 4),
        atk: (11, 52, 4),
        tsk: (10, 52, 4),
        ks_glwe: Some((4, 20, 3)),
        ks_lwe: (4, 16, 3),
    };

    /// rank 1, no intermediate GLWE switching key, same radix everywhere
    pub const RANK1: P = P {
        n_glwe: 256,
        n_lwe: 77,
        block_size: 7,
        rank: 1,
        glwe: (13, 26),
        ggsw: (13, 39, 2, 1),
        brk: (13, 52, 4),
        atk: (13, 52, 4),
        tsk: (13, 52, 4),
        ks_glwe: None,
        ks_lwe: (4, 16, 3),
    };

    pub fn glwe_infos(&self) -> GLWELayout {
        GLWELayout {
            n: Degree(self.n_glwe),
            base2k: Base2K(self.glwe.0),
            k: TorusPrecision(self.glwe.1),
            rank: Rank(self.rank),
        }
    }
    pub fn ggsw_infos(&self) -> GGSWLayout {
        GGSWLayout {
            n: Degree(self.n_glwe),
            base2k: Base2K(self.ggsw.0),
            k: TorusPrecision(self.ggsw.1),
            rank: Rank(self.rank),
            dnum: Dnum(self.ggsw.2),
            dsize: Dsize(self.ggsw.3),
        }
    }
    pub fn bdd_layout(&self) -> BDDKeyLayout {
        BDDKeyLayout {
            cbt_layout: CircuitBootstrappingKeyLayout {
                brk_layout: BlindRotationKeyLayout {
                    n_glwe: Degree(self.n_glwe),
                    n_lwe: Degree(self.n_lwe),
                    base2k: Base2K(self.brk.0),
                    k: TorusPrecision(self.brk.1),
                    dnum: Dnum(self.brk.2),
                    rank: Rank(self.rank),
                },
                atk_layout: GLWEAutomorphismKeyLayout {
                    n: Degree(self.n_glwe),
                    base2k: Base2K(self.atk.0),
                    k: TorusPrecision(self.atk.1),
                    rank: Rank(self.rank),
                    dnum: Dnum(self.atk.2),
                    dsize: Dsize(1),
                },
                tsk_layout: GGLWEToGGSWKeyLayout {
                    n: Degree(self.n_glwe),
                    base2k: Base2K(self.tsk.0),
                    k: TorusPrecision(self.tsk.1),
                    rank: Rank(self.rank),
                    dnum: Dnum(self.tsk.2),
                    dsize: Dsize(1),
                },
            },
            ks_glwe_layout: self.ks_glwe.map(|(b, k, d)| GLWESwitchingKeyLayout {
                n: Degree(self.n_glwe),
                base2k: Base2K(b),
                k: TorusPrecision(k),
                rank_in: Rank(self.rank),
                rank_out: Rank(1),
                dnum: Dnum(d),
                dsize: Dsize(1),
            }),
            ks_lwe_layout: GLWEToLWEKeyLayout {
                n: Degree(self.n_glwe),
                base2k: Base2K(self.ks_lwe.0),
                k: TorusPrecision(self.ks_lwe.1),
                rank_in: Rank(if self.ks_glwe.is_some() { 1 } else { self.rank }),
                dnum: Dnum(self.ks_lwe.2),
            },
        }
    }
}

#[allow(dead_code)]
pub struct Ctx {
    pub p: P,
    pub module: Module<BE>,
    pub sk: GLWESecretPrepared<DeviceBuf<BE>, BE>,
    pub sk_raw: GLWESecret<Vec<u8>>,
    pub sk_lwe: LWESecret<Vec<u8>>,
    pub key: BDDKeyPrepared<DeviceBuf<BE>, CGGI, BE>,
}

#[allow(dead_code)]
impl Ctx {
    pub fn new(p: P) -> Self {
        let module: Module<BE> = Module::<BE>::new(p.n_glwe as u64);
        let mut source_xs: Source = Source::new([11u8; 32]);
        let mut source_xa: Source = Source::new([12u8; 32]);
        let mut source_xe: Source = Source::new([13u8; 32]);
        let mut scratch: ScratchOwned<BE> = ScratchOwned::alloc(1 << 24);

        let mut sk_glwe: GLWESecret<Vec<u8>> = GLWESecret::alloc(p.n_glwe.into(), p.rank.into());
        sk_glwe.fill_ternary_prob(0.5, &mut source_xs);
        let mut sk: GLWESecretPrepared<DeviceBuf<BE>, BE> = module.glwe_secret_prepared_alloc(p.rank.into());
        module.glwe_secret_prepare(&mut sk, &sk_glwe);

        let mut sk_lwe: LWESecret<Vec<u8>> = LWESecret::alloc(p.n_lwe.into());
        if p.block_size == 0 {
            sk_lwe.fill_binary_prob(0.5, &mut source_xs);
        } else {
            sk_lwe.fill_binary_block(p.block_size as usize, &mut source_xs);
        }

        let layout = p.bdd_layout();
        let mut bdd_key: BDDKey<Vec<u8>, CGGI> = BDDKey::alloc_from_infos(&layout);
        let enc = BDDEncryptionInfos::from_default_sigma(&layout).unwrap();
        bdd_key.encrypt_sk(&module, &sk_lwe, &sk_glwe, &enc, &mut source_xe, &mut source_xa, scratch.borrow());
        let mut key: BDDKeyPrepared<DeviceBuf<BE>, CGGI, BE> = BDDKeyPrepared::alloc_from_infos(&module, &layout);
        key.prepare(&module, &bdd_key, scratch.borrow());
        Ctx {
            p,
            module,
            sk,
            sk_raw: sk_glwe,
            sk_lwe,
            key,
        }
    }

    pub fn enc<T: UnsignedInteger + ToBits>(&self, v: T, seed: u8) -> FheUint<Vec<u8>, T> {
        let mut xa = Source::new([seed; 32]);
        let mut xe = Source::new([seed.wrapping_add(101); 32]);
        let infos = self.p.glwe_infos();
        let mut ct: FheUint<Vec<u8>, T> = FheUint::alloc_from_infos(&infos);
        let mut scratch: ScratchOwned<BE> = ScratchOwned::alloc(1 << 20);
        let enc_infos = EncryptionLayout::new_from_default_sigma(infos).unwrap();
        ct.encrypt_sk(&self.module, v, &self.sk, &enc_infos, &mut xe, &mut xa, scratch.borrow());
        ct
    }

    pub fn dec<T: UnsignedInteger + FromBits>(&self, ct: &FheUint<Vec<u8>, T>) -> T {
        let mut scratch: ScratchOwned<BE> = ScratchOwned::alloc(1 << 20);
        ct.decrypt(&self.module, &self.sk, scratch.borrow())
    }

    pub fn alloc_prep<T: UnsignedInteger>(&self) -> FheUintPrepared<DeviceBuf<BE>, T, BE> {
        FheUintPrepared::<DeviceBuf<BE>, T, BE>::alloc_from_infos(&self.module, &self.p.ggsw_infos())
    }

    /// Encrypts directly a prepared value (fresh GGSW per bit)
    pub fn enc_prep<T: UnsignedInteger + ToBits>(&self, v: T, seed: u8) -> FheUintPrepared<DeviceBuf<BE>, T, BE> {
        let mut xa = Source::new([seed; 32]);
        let mut xe = Source::new([seed.wrapping_add(77); 32]);
        let mut res = self.alloc_prep::<T>();
        let mut scratch: ScratchOwned<BE> = ScratchOwned::alloc(1 << 22);
        let enc_infos = EncryptionLayout::new_from_default_sigma(self.p.ggsw_infos()).unwrap();
        res.encrypt_sk(&self.module, v, &self.sk, &enc_infos, &mut xe, &mut xa, scratch.borrow());
        res
    }

    pub fn prep<T: UnsignedInteger>(&self, ct: &FheUint<Vec<u8>, T>) -> FheUintPrepared<DeviceBuf<BE>, T, BE> {
        let mut res = self.alloc_prep::<T>();
        let mut scratch: ScratchOwned<BE> = ScratchOwned::alloc(1 << 23);
        res.prepare(&self.module, ct, &self.key, scratch.borrow());
        res
    }

    pub fn dec_prep<T: UnsignedInteger + FromBits>(&self, ct: &FheUintPrepared<DeviceBuf<BE>, T, BE>) -> T {
        let mut scratch: ScratchOwned<BE> = ScratchOwned::alloc(1 << 23);
        ct.decrypt(&self.module, &self.sk, &self.key, scratch.borrow())
    }
}

#[allow(dead_code)]
pub fn dirty(scratch: &mut ScratchOwned<BE>, seed: u8) {
    let mut s = Source::new([seed; 32]);
    use rand::Rng;
    s.fill_bytes(&mut scratch.borrow().data);
}

#[allow(dead_code)]
pub fn boundary_u32() -> Vec<u32> {
    vec![
        0,
        1,
        0x8000_0000,
        0xFFFF_FFFF,
        0x7FFF_FFFF,
        0x5555_5555,
        0xAAAA_AAAA,
        0x0000_0100,
        0x0001_0000,
        31,
        32,
        33,
        63,
    ]
}
