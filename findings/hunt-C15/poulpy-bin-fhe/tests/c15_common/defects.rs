// C15 - inputs on which the unmodified library violates the property (each test states the expected behaviour
// and FAILS on the unmodified code).

mod cbt {
    use super::BE;
    include!("cbt_lib.rs");

    /// D1. execute_to_exponent with log_gap_out == log2(N) - log_domain (the spacing the blind rotation
    /// produces natively, i.e. the branch of `post_process` that does not repack).
    #[test]
    fn d1_to_exponent_natural_gap() {
        let k = setup(C::LIB);
        // N = 256, log_domain = 1 -> values {0, 1} -> X^0, X^128
        run_exponent(&k, 1, 7);
    }

    #[test]
    fn d1_to_exponent_natural_gap_single_row() {
        let k = setup(C {
            res_dnum: 1,
            res_k: 30,
            ..C::LIB
        });
        run_exponent(&k, 2, 6);
    }

    /// D6. Output GGSW with dsize = 2 (admitted by GGSW::alloc / FheUintPrepared::alloc).
    #[test]
    fn d6_to_constant_dsize2() {
        let k = setup(C {
            res_dnum: 2,
            res_dsize: 2,
            res_k: 75,
            ..C::LIB
        });
        run_constant(&k, 1, false);
    }
}

mod cbt_radix {
    use super::BE;
    include!("cbt_lib.rs");

    /// D7. The LWE fed to circuit bootstrapping is in a radix 2^b with b <= log2(N) + 2 (N = 256: b <= 10).
    #[test]
    fn d7_to_constant_small_lwe_radix() {
        let k = setup(C::LIB);
        let mut bad = Vec::new();
        for b in [14usize, 12, 11, 10, 9, 7, 5] {
            for data in 0..2i64 {
                let lwe = enc_lwe_radix(&k, data, 1, 5, b);
                let mut res: GGSW<Vec<u8>> = GGSW::alloc_from_infos(&k.ggsw_infos);
                let mut scratch: ScratchOwned<BE> = ScratchOwned::alloc(1 << 24);
                k.cbt.execute_to_constant(&k.module, &mut res, &lwe, 1, 1, scratch.borrow());
                let mut want: ScalarZnx<Vec<u8>> = ScalarZnx::alloc(k.c.n_glwe, 1);
                want.at_mut(0, 0)[0] = data;
                let err = res.noise(&k.module, 0, 0, &want, &k.sk, scratch.borrow()).max().log2();
                if err > -16.0 {
                    bad.push((b, data, err));
                }
            }
        }
        assert!(bad.is_empty(), "(lwe radix, bit, log2 error of cell (0,0)) = {bad:?}");
    }
}

mod bdd {
    use super::BE;
    include!("ctx.rs");
    use poulpy_bin_fhe::bdd_arithmetic::{Cmux, GLWEBlindRetriever};
    use poulpy_core::{
        GLWEDecrypt, GLWEEncryptSk,
        layouts::{GLWE, GLWEPlaintext},
    };

    fn p_rank1(block: u32, same_radix: bool) -> P {
        P {
            n_glwe: 256,
            n_lwe: if block == 0 { 40 } else { 77 },
            block_size: block,
            rank: 1,
            glwe: (13, 26),
            ggsw: (13, 39, 2, 1),
            brk: if same_radix { (13, 52, 4) } else { (12, 52, 4) },
            atk: if same_radix { (13, 52, 4) } else { (11, 52, 4) },
            tsk: if same_radix { (13, 52, 4) } else { (10, 52, 4) },
            ks_glwe: None,
            ks_lwe: (4, 16, 3),
        }
    }

    /// D2. rank 1, key radices 12 / 11 / 10 exactly as in the library's rank-2 test-suite: prepare() panics whatever
    /// scratch the caller provides (each worker gets exactly fhe_uint_prepare_tmp_bytes, which is too small).
    #[test]
    fn d2_prepare_rank1_lib_radices() {
        let ctx = Ctx::new(p_rank1(7, false));
        let ct = ctx.enc::<u32>(0x8000_0001, 1);
        let mut res = ctx.alloc_prep::<u32>();
        let mut scratch: ScratchOwned<BE> = ScratchOwned::alloc(1 << 26);
        res.prepare(&ctx.module, &ct, &ctx.key, scratch.borrow());
        assert_eq!(ctx.dec_prep(&res), 0x8000_0001);
    }

    /// D3. rank 1, LWE secret binary but not block-binary (standard blind rotation), all keys in radix 13.
    #[test]
    fn d3_prepare_rank1_standard_blind_rotation() {
        let ctx = Ctx::new(p_rank1(0, true));
        let ct = ctx.enc::<u32>(0x8000_0001, 1);
        let mut res = ctx.alloc_prep::<u32>();
        let mut scratch: ScratchOwned<BE> = ScratchOwned::alloc(1 << 26);
        res.prepare(&ctx.module, &ct, &ctx.key, scratch.borrow());
        assert_eq!(ctx.dec_prep(&res), 0x8000_0001);
    }

    /// D9 (builds with debug assertions only). rank 2 + GLWE switching key: enough slack in the arena, release builds
    /// bootstrap correctly, but the standard blind rotation asserts lwe.n() == brk.n_lwe() and prepare() hands it
    /// an LWE carved with the GLWE's degree (n = N - 1).
    #[cfg(debug_assertions)]
    #[test]
    fn d9_prepare_standard_blind_rotation_debug_assertion() {
        let ctx = Ctx::new(P {
            n_lwe: 40,
            block_size: 0,
            ..P::LIB
        });
        let ct = ctx.enc::<u32>(0x8000_0001, 1);
        assert_eq!(ctx.dec_prep(&ctx.prep(&ct)), 0x8000_0001);
    }

    /// D7 (integer level). Packed integers in radix 2^10 over N = 256: every bit bootstraps to 0.
    #[test]
    fn d7_prepare_small_radix() {
        let ctx = Ctx::new(P {
            glwe: (10, 20),
            ggsw: (10, 30, 2, 1),
            ..P::LIB
        });
        let ct = ctx.enc::<u32>(0x8000_0001, 1);
        assert_eq!(ctx.dec(&ct), 0x8000_0001);
        // control: fresh selectors in this layout work
        assert_eq!(ctx.dec_prep(&ctx.enc_prep::<u32>(0x8000_0001, 2)), 0x8000_0001);
        assert_eq!(ctx.dec_prep(&ctx.prep(&ct)), 0x8000_0001, "prepare in radix 2^10");
    }

    /// D8. FheUint::<T>::noise takes the expected value as a u32 whatever T is: 64/128-bit words cannot be checked.
    #[test]
    fn d8_noise_of_a_u64() {
        let ctx = Ctx::new(P::LIB);
        let v: u64 = 0x0000_0001_0000_0005;
        let ct = ctx.enc::<u64>(v, 1);
        let mut scratch: ScratchOwned<BE> = ScratchOwned::alloc(1 << 22);
        // only the low word can even be expressed
        let st = ct.noise(&ctx.module, v as u32, &ctx.sk, scratch.borrow());
        assert!(st.max().log2() < -10.0, "noise against the expected plaintext: max 2^{}", st.max().log2());
    }

    fn enc_const(ctx: &Ctx, v: i64, seed: u8) -> GLWE<Vec<u8>> {
        let infos = ctx.p.glwe_infos();
        let mut d = vec![0i64; ctx.p.n_glwe as usize];
        d[0] = v;
        let mut pt: GLWEPlaintext<Vec<u8>> = GLWEPlaintext::alloc_from_infos(&infos);
        pt.encode_vec_i64(&d, TorusPrecision(8));
        let mut ct: GLWE<Vec<u8>> = GLWE::alloc_from_infos(&infos);
        let enc_infos = EncryptionLayout::new_from_default_sigma(infos).unwrap();
        let mut scratch: ScratchOwned<BE> = ScratchOwned::alloc(1 << 20);
        ctx.module.glwe_encrypt_sk(
            &mut ct,
            &pt,
            &ctx.sk,
            &enc_infos,
            &mut Source::new([seed; 32]),
            &mut Source::new([seed ^ 0xF0; 32]),
            scratch.borrow(),
        );
        ct
    }
    fn dec_const(ctx: &Ctx, ct: &GLWE<Vec<u8>>) -> i64 {
        let infos = ctx.p.glwe_infos();
        let mut pt: GLWEPlaintext<Vec<u8>> = GLWEPlaintext::alloc_from_infos(&infos);
        let mut scratch: ScratchOwned<BE> = ScratchOwned::alloc(1 << 20);
        ctx.module.glwe_decrypt(ct, &mut pt, &ctx.sk, scratch.borrow());
        pt.decode_coeff_i64(TorusPrecision(8), 0)
    }

    /// D4. A retriever allocated for a single element ("up to `size` inputs") cannot take that element.
    #[test]
    fn d4_retriever_size_one() {
        let ctx = Ctx::new(P::LIB);
        let data = vec![enc_const(&ctx, 42, 1)];
        let mut retriever = GLWEBlindRetriever::alloc(&ctx.p.glwe_infos(), 1);
        let kp = ctx.enc_prep::<u32>(0, 1);
        let mut res = enc_const(&ctx, 7, 2);
        let mut scratch: ScratchOwned<BE> = ScratchOwned::alloc(1 << 22);
        retriever.retrieve(&ctx.module, &mut res, &data, &kp, 0, scratch.borrow());
        assert_eq!(dec_const(&ctx, &res), 42);
    }

    /// D5. retrieve() on a scratch of exactly retrieve_tmp_bytes().
    #[test]
    fn d5_retriever_exact_scratch() {
        let ctx = Ctx::new(P::LIB);
        let data: Vec<GLWE<Vec<u8>>> = (0..4).map(|i| enc_const(&ctx, 40 + i, i as u8)).collect();
        let mut retriever = GLWEBlindRetriever::alloc(&ctx.p.glwe_infos(), 4);
        let bytes = GLWEBlindRetriever::retrieve_tmp_bytes::<_, _, _, BE>(&ctx.module, &ctx.p.glwe_infos(), &ctx.p.ggsw_infos());
        assert!(bytes >= ctx.module.cmux_tmp_bytes(&ctx.p.glwe_infos(), &ctx.p.glwe_infos(), &ctx.p.ggsw_infos()));
        for idx in 0..4u32 {
            let kp = ctx.enc_prep::<u32>(idx, idx as u8);
            let mut res = enc_const(&ctx, 7, 2);
            let mut scratch: ScratchOwned<BE> = ScratchOwned::alloc(bytes);
            retriever.retrieve(&ctx.module, &mut res, &data, &kp, 0, scratch.borrow());
            assert_eq!(dec_const(&ctx, &res), 40 + idx as i64);
        }
    }

    /// D6 (integer level). FheUintPrepared allocated with dsize = 2, filled by prepare(), used by an operation.
    #[test]
    fn d6_prepare_dsize2_then_add() {
        // enough precision for two-limb (22-bit) digits to stay well above the bootstrapping noise
        let p = P {
            glwe: (11, 22),
            ggsw: (11, 66, 2, 2),
            brk: (12, 84, 6),
            atk: (11, 84, 7),
            tsk: (10, 84, 8),
            ..P::LIB
        };
        let ctx = Ctx::new(p);
        // control: fresh GGSWs with this layout are fine selectors
        let a = ctx.enc_prep::<u32>(0x0000_FFFF, 1);
        let b = ctx.enc_prep::<u32>(0x0000_0001, 2);
        let mut res = ctx.enc::<u32>(0, 3);
        let mut scratch: ScratchOwned<BE> = ScratchOwned::alloc(1 << 24);
        res.add(&ctx.module, &a, &b, &ctx.key, scratch.borrow());
        assert_eq!(ctx.dec(&res), 0x0001_0000, "control: fresh dsize-2 selectors");
        // bootstrapped selectors
        let a = ctx.prep(&ctx.enc::<u32>(0x0000_FFFF, 1));
        let b = ctx.prep(&ctx.enc::<u32>(0x0000_0001, 2));
        assert_eq!(ctx.dec_prep(&a), 0x0000_FFFF, "prepare with dsize 2");
        res.add(&ctx.module, &a, &b, &ctx.key, scratch.borrow());
        assert_eq!(ctx.dec(&res), 0x0001_0000, "add on bootstrapped dsize-2 selectors");
    }
}
