// Circuit bootstrapping of packed integers (FheUintPrepared::prepare*) : full, partial (start, len),
// multi-thread, exact scratch, dirty destination, u8/u16/u32/u64, several ring degrees.

include!("ctx.rs");

use poulpy_bin_fhe::bdd_arithmetic::FheUintPrepare;
use std::sync::LazyLock;

static CTX_LIB: LazyLock<Ctx> = LazyLock::new(|| Ctx::new(P::LIB));
static CTX_RANK1: LazyLock<Ctx> = LazyLock::new(|| Ctx::new(P::RANK1));

fn mask128(start: usize, len: usize, bits: usize) -> u128 {
    let mut m: u128 = 0;
    for i in start..start + len {
        assert!(i < bits);
        m |= 1u128 << i;
    }
    m
}

trait W: UnsignedInteger + ToBits + FromBits + std::fmt::Debug + PartialEq {
    fn from128(x: u128) -> Self;
    #[allow(dead_code)]
    fn to128(self) -> u128;
}
macro_rules! w {
    ($($t:ty),*) => {$(impl W for $t { fn from128(x: u128) -> Self { x as $t } fn to128(self) -> u128 { self as u128 } })*};
}
w!(u8, u16, u32, u64, u128);

/// Partial preparation of [start, start+len): the selected bits carry the input's bits, every other bit of the
/// destination is an encryption of zero (the destination previously held another value).
fn partial<T: W>(ctx: &Ctx, value: u128, combos: &[(usize, usize)], threads: usize, exact: bool) {
    let bits = T::BITS as usize;
    let v: T = T::from128(value);
    let ct = ctx.enc::<T>(v, 5);
    assert_eq!(ctx.dec(&ct), v);
    let m = &ctx.module;
    for &(start, len) in combos {
        // dirty destination: encrypts !value
        let mut res = ctx.enc_prep::<T>(T::from128(!value), 9);
        let per_thread = m.fhe_uint_prepare_tmp_bytes(ctx.key_block_size(), 1, &ctx.p.ggsw_infos(), &ctx.p.glwe_infos(), &ctx.key);
        let bytes = if exact { per_thread * threads.max(1) } else { 1 << 24 };
        let mut scratch: ScratchOwned<BE> = ScratchOwned::alloc(bytes);
        dirty(&mut scratch, 0x33);
        if threads == 0 {
            res.prepare_custom(m, &ct, start, start + len, &ctx.key, scratch.borrow());
        } else {
            res.prepare_custom_multi_thread(threads, m, &ct, start, start + len, &ctx.key, scratch.borrow());
        }
        let have: T = ctx.dec_prep(&res);
        let want: T = T::from128(value & mask128(start, len, bits));
        assert_eq!(
            have,
            want,
            "T=u{bits} value={value:#x} start={start} len={len} threads={threads} exact={exact}"
        );
    }
}

impl Ctx {
    fn key_block_size(&self) -> usize {
        if self.p.block_size == 0 { 1 } else { self.p.block_size as usize }
    }
}

fn all_combos(bits: usize) -> Vec<(usize, usize)> {
    let mut v = Vec::new();
    for start in 0..=bits {
        for len in 0..=(bits - start) {
            v.push((start, len));
        }
    }
    v
}

#[test]
fn partial_u8_all_start_len() {
    partial::<u8>(&CTX_LIB, 0xFF, &all_combos(8), 0, true);
    partial::<u8>(&CTX_LIB, 0xA5, &all_combos(8), 0, false);
}

#[test]
fn partial_u16_all_start_len() {
    partial::<u16>(&CTX_LIB, 0xFFFF, &all_combos(16), 0, true);
}

#[test]
fn partial_u32_all_start_len() {
    partial::<u32>(&CTX_LIB, 0xFFFF_FFFF, &all_combos(32), 0, true);
}

#[test]
fn partial_u32_patterns_rank1() {
    let combos: Vec<(usize, usize)> = all_combos(32)
        .into_iter()
        .filter(|(s, l)| *l <= 2 || s + l == 32 || (s % 8 == 0 && l % 8 == 0) || (s % 5 == 3 && l % 7 == 4))
        .collect();
    partial::<u32>(&CTX_RANK1, 0xA5C3_0FF1, &combos, 0, false);
}

#[test]
fn partial_multi_thread() {
    let combos = [(0usize, 32usize), (0, 0), (32, 0), (31, 1), (3, 7), (1, 30), (16, 16), (5, 26), (7, 1)];
    for threads in [1usize, 2, 3, 4, 5, 7, 31, 32, 33, 40] {
        partial::<u32>(&CTX_LIB, 0xFFFF_FFFF, &combos, threads, true);
    }
    let combos8 = [(0usize, 8usize), (1, 6), (7, 1), (8, 0), (2, 3)];
    for threads in [1usize, 2, 3, 5, 8, 9] {
        partial::<u8>(&CTX_LIB, 0x5A, &combos8, threads, true);
    }
}

#[test]
fn partial_u64_u128() {
    // N = 256 holds 64 and 128-bit words as well
    let c64: Vec<(usize, usize)> = vec![(0, 64), (0, 1), (63, 1), (32, 32), (31, 2), (7, 50), (64, 0)];
    partial::<u64>(&CTX_LIB, 0xDEAD_BEEF_0123_4567_u128 | (1u128 << 63), &c64, 0, true);
    let c128: Vec<(usize, usize)> = vec![(0, 128), (127, 1), (64, 64), (63, 2), (100, 9)];
    partial::<u128>(&CTX_LIB, u128::MAX / 3 | (1u128 << 127), &c128, 2, false);
}

/// The full prepare on boundary words, each GGSW cell checked through the noise of the debug form.
#[test]
fn prepare_every_cell() {
    use poulpy_core::DEFAULT_SIGMA_XE;
    for ctx in [&*CTX_LIB, &*CTX_RANK1] {
        let ggsw_infos = ctx.p.ggsw_infos();
        for (i, value) in [0u32, u32::MAX, 0x8000_0001, 0x5555_5555].iter().enumerate() {
            let ct = ctx.enc::<u32>(*value, i as u8);
            let mut dbg: FheUintPreparedDebug<Vec<u8>, u32> = FheUintPreparedDebug::alloc_from_infos(&ctx.module, &ggsw_infos);
            let mut scratch: ScratchOwned<BE> = ScratchOwned::alloc(1 << 24);
            dirty(&mut scratch, 3);
            dbg.prepare(&ctx.module, &ct, &ctx.key, scratch.borrow());
            for row in 0..ggsw_infos.dnum().as_usize() {
                for col in 0..ggsw_infos.rank().as_usize() + 1 {
                    let stats = dbg.noise(&ctx.module, row, col, *value, &ctx.sk, scratch.borrow());
                    let mut max = -(ggsw_infos.size() as f64 * ggsw_infos.base2k().as_usize() as f64) + DEFAULT_SIGMA_XE.log2() + 2.0;
                    max += 0.5 * ggsw_infos.log_n() as f64;
                    if col != 0 {
                        max += 0.5 * ggsw_infos.log_n() as f64;
                    }
                    for (bit, s) in stats.iter().enumerate() {
                        let have = s.std().log2();
                        assert!(have <= max, "value={value:#x} bit={bit} row={row} col={col}: noise {have} > {max}");
                    }
                }
            }
        }
    }
}

fn small(n_glwe: u32, n_lwe: u32, block: u32, rank: u32, ks_glwe: bool) -> P {
    P {
        n_glwe,
        n_lwe,
        block_size: block,
        rank,
        glwe: (13, 26),
        ggsw: (13, 39, 2, 1),
        // rank 1: same radix for all keys (see c15_defects: with brk/atk radices 12/11 the per-thread arena is too small)
        brk: if rank == 1 { (13, 52, 4) } else { (12, 52, 4) },
        atk: if rank == 1 { (13, 52, 4) } else { (11, 52, 4) },
        tsk: if rank == 1 { (13, 52, 4) } else { (10, 52, 4) },
        ks_glwe: if ks_glwe { Some((4, 20, 3)) } else { None },
        ks_lwe: (4, 16, 3),
    }
}

/// Small ring degrees: the word fills the ring (log_gap = 0) or leaves gaps.
#[test]
fn small_rings() {
    // (N, T::BITS) pairs with N >= BITS
    let ctx32 = Ctx::new(small(32, 14, 7, 1, false));
    partial::<u32>(&ctx32, 0x8000_0001, &[(0, 32), (31, 1), (0, 1), (5, 9)], 0, true);
    partial::<u32>(&ctx32, 0xFFFF_FFFF, &[(0, 32), (16, 16)], 3, true);
    partial::<u8>(&ctx32, 0xC3, &all_combos(8), 0, true);
    partial::<u16>(&ctx32, 0xC3A5, &[(0, 16), (15, 1), (8, 8), (3, 6)], 0, true);

    let ctx32b = Ctx::new(small(32, 14, 7, 2, true));
    partial::<u32>(&ctx32b, 0x8000_0001, &[(0, 32), (31, 1), (0, 1), (5, 9)], 0, true);
    partial::<u32>(&ctx32b, 0x7FFF_FFFE, &[(0, 32)], 2, true);

    let ctx64 = Ctx::new(small(64, 21, 7, 2, true));
    partial::<u64>(&ctx64, 0x8000_0000_0000_0001 | 0x00FF_0000_1234_0000, &[(0, 64), (63, 1), (32, 32), (40, 9)], 0, true);
    partial::<u32>(&ctx64, 0xA5A5_5A5A, &[(0, 32), (31, 1), (8, 16)], 2, true);

    let ctx128 = Ctx::new(small(128, 35, 7, 1, true));
    partial::<u128>(&ctx128, (1u128 << 127) | 0xFFFF_0000_FFFF, &[(0, 128), (127, 1), (16, 40)], 0, true);
    partial::<u32>(&ctx128, 0xDEAD_BEEF, &[(0, 32), (13, 11)], 0, true);
}

/// A key whose LWE secret is not block-binary drives the standard blind rotation.
#[test]
fn standard_blind_rotation_key() {
    let ctx = Ctx::new(small(256, 40, 0, 2, true));
    partial::<u32>(&ctx, 0x8000_0001, &[(0, 32), (31, 1), (0, 1)], 0, true);
    partial::<u8>(&ctx, 0xC3, &[(0, 8)], 0, false);
    // rank 1 with such a key: see c15_defects (per-thread arena too small)
}
