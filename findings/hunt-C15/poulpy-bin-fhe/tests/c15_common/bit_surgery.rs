// Bit surgery on packed integers: bit / byte extraction, byte and halfword splice, zero_byte, sign extension,
// packing and the round trip through the prepared form, for u8 / u16 / u32 / u64 / u128.

include!("ctx.rs");

use poulpy_core::layouts::{GLWE, LWE};
use std::sync::LazyLock;

static CTX_LIB: LazyLock<Ctx> = LazyLock::new(|| Ctx::new(P::LIB));
static CTX_RANK1: LazyLock<Ctx> = LazyLock::new(|| Ctx::new(P::RANK1));
static CTX_N32: LazyLock<Ctx> = LazyLock::new(|| {
    Ctx::new(P {
        n_glwe: 32,
        n_lwe: 14,
        ..P::RANK1
    })
});
static CTX_N128: LazyLock<Ctx> = LazyLock::new(|| {
    Ctx::new(P {
        n_glwe: 128,
        n_lwe: 35,
        ..P::LIB
    })
});

trait W: UnsignedInteger + ToBits + FromBits + std::fmt::Debug + PartialEq {
    fn from128(x: u128) -> Self;
    fn to128(self) -> u128;
    fn mask() -> u128 {
        if Self::BITS == 128 { u128::MAX } else { (1u128 << Self::BITS) - 1 }
    }
}
macro_rules! w {
    ($($t:ty),*) => {$(impl W for $t { fn from128(x: u128) -> Self { x as $t } fn to128(self) -> u128 { self as u128 } })*};
}
w!(u8, u16, u32, u64, u128);

fn scratch_dirty(seed: u8) -> ScratchOwned<BE> {
    let mut s: ScratchOwned<BE> = ScratchOwned::alloc(1 << 22);
    dirty(&mut s, seed);
    s
}

fn patterns<T: W>() -> Vec<u128> {
    let m = T::mask();
    let mut v = vec![
        0,
        1,
        m,
        m >> 1,
        (m >> 1) + 1,
        0x5555_5555_5555_5555_5555_5555_5555_5555 & m,
        0xAAAA_AAAA_AAAA_AAAA_AAAA_AAAA_AAAA_AAAA & m,
        0x8483_8281_F7E6_D5C4_B3A2_9180_7F6E_5D4C & m,
        0x0180_7F80_017F_FF00_80FF_7F01_00FF_8001 & m,
    ];
    v.dedup();
    v
}

fn rotr<T: W>(x: u128, r: u32) -> u128 {
    let b = T::BITS;
    let r = r % b;
    if r == 0 { x & T::mask() } else { ((x >> r) | (x << (b - r))) & T::mask() }
}
fn rotl<T: W>(x: u128, r: u32) -> u128 {
    let b = T::BITS;
    rotr::<T>(x, (b - (r % b)) % b)
}

fn get_bit_and_byte<T: W>(ctx: &Ctx) {
    let bits = T::BITS as usize;
    for (vi, v) in patterns::<T>().into_iter().enumerate() {
        let ct = ctx.enc::<T>(T::from128(v), vi as u8);
        assert_eq!(ctx.dec(&ct).to128(), v, "enc/dec u{bits} {v:#x}");
        let mut scratch = scratch_dirty(1);
        for i in 0..bits {
            // dirty destination
            let mut res: FheUint<Vec<u8>, T> = ctx.enc::<T>(T::from128(!v & T::mask()), 40);
            ct.get_bit_glwe(&ctx.module, i, &mut res, &ctx.key, scratch.borrow());
            assert_eq!(ctx.dec(&res).to128(), (v >> i) & 1, "get_bit_glwe u{bits} v={v:#x} bit {i}");
        }
        for byte in 0..bits / 8 {
            let mut res: FheUint<Vec<u8>, T> = ctx.enc::<T>(T::from128(!v & T::mask()), 41);
            ct.get_byte(&ctx.module, byte, &mut res, &ctx.key, scratch.borrow());
            assert_eq!(ctx.dec(&res).to128(), (v >> (8 * byte)) & 0xFF, "get_byte u{bits} v={v:#x} byte {byte}");
        }
    }
}

#[test]
fn get_bit_get_byte_all_widths() {
    get_bit_and_byte::<u8>(&CTX_LIB);
    get_bit_and_byte::<u16>(&CTX_LIB);
    get_bit_and_byte::<u32>(&CTX_LIB);
    get_bit_and_byte::<u64>(&CTX_LIB);
    get_bit_and_byte::<u128>(&CTX_LIB);
    get_bit_and_byte::<u32>(&CTX_RANK1);
    get_bit_and_byte::<u8>(&CTX_N32);
    get_bit_and_byte::<u16>(&CTX_N32);
    get_bit_and_byte::<u32>(&CTX_N32);
    get_bit_and_byte::<u128>(&CTX_N128);
    get_bit_and_byte::<u64>(&CTX_N128);
}

fn get_bit_lwe<T: W>(ctx: &Ctx, lwe_n: u32, base2k: u32, k: u32) {
    let bits = T::BITS as usize;
    use poulpy_bin_fhe::bdd_arithmetic::BDDKeyHelper;
    let (_, ks_glwe, ks_lwe) = ctx.key.get_cbt_key();
    for (vi, v) in patterns::<T>().into_iter().enumerate() {
        let ct = ctx.enc::<T>(T::from128(v), vi as u8);
        let mut scratch = scratch_dirty(2);
        for i in 0..bits {
            let mut lwe: LWE<Vec<u8>> = LWE::alloc(Degree(lwe_n), Base2K(base2k), TorusPrecision(k));
            {
                use poulpy_hal::layouts::ZnxViewMut;
                lwe.data_mut().raw_mut().iter_mut().for_each(|x| *x = 0x1234);
            }
            ct.get_bit_lwe(&ctx.module, i, &mut lwe, ks_glwe, ks_lwe, scratch.borrow());
            // phase = b + <a, s> computed by hand (the secret is shorter than an over-long LWE: missing entries are 0)
            let have: i64;
            let d: f64;
            {
                use poulpy_hal::layouts::ZnxView;
                let s: &[i64] = ctx.sk_lwe.raw();
                assert!(s.len() <= lwe_n as usize);
                let mut acc: f64 = 0.0;
                for j in 0..lwe.size() {
                    let limb: &[i64] = lwe.data().at(0, j);
                    assert_eq!(limb.len(), lwe_n as usize + 1);
                    let mut ph: i128 = limb[0] as i128;
                    for (x, y) in limb[1..].iter().zip(s.iter()) {
                        ph += (*x as i128) * (*y as i128);
                    }
                    // ph * 2^{-(j+1) base2k} mod 1
                    let sh = (j as u32 + 1) * base2k;
                    let m: i128 = 1i128 << sh;
                    let r = ph.rem_euclid(m);
                    acc += r as f64 / m as f64;
                }
                d = acc.rem_euclid(1.0);
                // bit b is encoded as b / 4
                have = ((d * 4.0).round() as i64) & 3;
            }
            assert_eq!(have as u128, (v >> i) & 1, "get_bit_lwe u{bits} v={v:#x} bit {i} lwe=({lwe_n},{base2k},{k}) raw={d}");
        }
    }
}


#[test]
fn get_bit_lwe_all_bits() {
    // LWE shapes: exactly the secret's dimension, and the over-long one used internally by prepare (N - 1)
    get_bit_lwe::<u32>(&CTX_LIB, 77, 13, 26);
    get_bit_lwe::<u32>(&CTX_LIB, 77, 4, 16);
    get_bit_lwe::<u32>(&CTX_LIB, 255, 13, 26);
    get_bit_lwe::<u8>(&CTX_LIB, 77, 13, 26);
    get_bit_lwe::<u64>(&CTX_LIB, 77, 13, 26);
    get_bit_lwe::<u32>(&CTX_RANK1, 77, 13, 26);
    get_bit_lwe::<u32>(&CTX_N32, 14, 13, 26);
    get_bit_lwe::<u16>(&CTX_N32, 31, 13, 26);
}

fn splice8<T: W>(ctx: &Ctx) {
    let bits = T::BITS as usize;
    let bytes = bits / 8;
    let pats = patterns::<T>();
    let pairs: Vec<(u128, u128)> = vec![
        (T::mask(), pats[7]),
        (0, pats[7]),
        (pats[7], pats[8]),
        (pats[5], pats[6]),
        (pats[8], T::mask()),
    ];
    for (pi, (a, b)) in pairs.into_iter().enumerate() {
        let a_enc = ctx.enc::<T>(T::from128(a), pi as u8);
        let b_enc = ctx.enc::<T>(T::from128(b), 50 + pi as u8);
        let mut scratch = scratch_dirty(3);
        for dst in 0..bytes {
            for src in 0..bytes {
                let mut c: FheUint<Vec<u8>, T> = ctx.enc::<T>(T::from128(0x5A5A_5A5A_5A5A_5A5A_5A5A_5A5A_5A5A_5A5A & T::mask()), 60);
                c.splice_u8(&ctx.module, dst, src, &a_enc, &b_enc, &ctx.key, scratch.borrow());
                let rj = (dst * 8) as u32;
                let ri = (src * 8) as u32;
                let want = rotl::<T>((rotr::<T>(a, rj) & !0xFFu128 & T::mask()) | (rotr::<T>(b, ri) & 0xFF), rj);
                assert_eq!(ctx.dec(&c).to128(), want, "splice_u8 u{bits} a={a:#x} b={b:#x} dst={dst} src={src}");
                // operands untouched
                assert_eq!(ctx.dec(&a_enc).to128(), a);
                assert_eq!(ctx.dec(&b_enc).to128(), b);
            }
        }
        if bits >= 16 {
            for dst in 0..bits / 16 {
                for src in 0..bits / 16 {
                    let mut c: FheUint<Vec<u8>, T> = ctx.enc::<T>(T::from128(0x5A5A_5A5A_5A5A_5A5A_5A5A_5A5A_5A5A_5A5A & T::mask()), 61);
                    c.splice_u16(&ctx.module, dst, src, &a_enc, &b_enc, &ctx.key, scratch.borrow());
                    let rj = (dst * 16) as u32;
                    let ri = (src * 16) as u32;
                    let want = rotl::<T>((rotr::<T>(a, rj) & !0xFFFFu128 & T::mask()) | (rotr::<T>(b, ri) & 0xFFFF), rj);
                    assert_eq!(ctx.dec(&c).to128(), want, "splice_u16 u{bits} a={a:#x} b={b:#x} dst={dst} src={src}");
                }
            }
        }
    }
}

#[test]
fn splice_all_positions_all_widths() {
    splice8::<u8>(&CTX_LIB);
    splice8::<u16>(&CTX_LIB);
    splice8::<u32>(&CTX_LIB);
    splice8::<u64>(&CTX_LIB);
    splice8::<u32>(&CTX_RANK1);
    splice8::<u32>(&CTX_N32);
    splice8::<u16>(&CTX_N32);
    splice8::<u8>(&CTX_N32);
}

#[test]
fn splice_u128() {
    splice8::<u128>(&CTX_N128);
}

fn zero_byte_and_sext<T: W>(ctx: &Ctx) {
    let bits = T::BITS as usize;
    let bytes = bits / 8;
    for (vi, v) in patterns::<T>().into_iter().enumerate() {
        let mut scratch = scratch_dirty(4);
        for byte in 0..bytes {
            let mut ct = ctx.enc::<T>(T::from128(v), vi as u8);
            ct.zero_byte(&ctx.module, byte, &ctx.key, scratch.borrow());
            let want = v & !(0xFFu128 << (8 * byte));
            assert_eq!(ctx.dec(&ct).to128(), want, "zero_byte u{bits} v={v:#x} byte={byte}");

            let mut ct = ctx.enc::<T>(T::from128(v), vi as u8);
            ct.sext(&ctx.module, byte, &ctx.key, scratch.borrow());
            let top = 8 * byte + 7;
            let lo = v & ((1u128 << top << 1).wrapping_sub(1));
            let lo = if top == 127 { v } else { lo };
            let sign = (v >> top) & 1;
            let hi = if sign == 1 && top < 127 { T::mask() & !((1u128 << (top + 1)) - 1) } else { 0 };
            assert_eq!(ctx.dec(&ct).to128(), hi | lo, "sext u{bits} v={v:#x} byte={byte}");
        }
    }
}

#[test]
fn zero_byte_sext_all_widths() {
    zero_byte_and_sext::<u8>(&CTX_LIB);
    zero_byte_and_sext::<u16>(&CTX_LIB);
    zero_byte_and_sext::<u32>(&CTX_LIB);
    zero_byte_and_sext::<u64>(&CTX_LIB);
    zero_byte_and_sext::<u32>(&CTX_RANK1);
    zero_byte_and_sext::<u32>(&CTX_N32);
    zero_byte_and_sext::<u16>(&CTX_N32);
}

#[test]
fn zero_byte_sext_u128() {
    zero_byte_and_sext::<u128>(&CTX_N128);
}

/// pack: bit i given as a GLWE holding the bit in its constant coefficient.
fn pack<T: W>(ctx: &Ctx) {
    let bits = T::BITS as usize;
    for (vi, v) in patterns::<T>().into_iter().enumerate().take(6) {
        for n_given in [bits, bits / 2, 1] {
            let mut cts: Vec<GLWE<Vec<u8>>> = (0..n_given)
                .map(|i| {
                    let f = ctx.enc::<T>(T::from128((v >> i) & 1), (vi * 7 + i) as u8);
                    let mut g: GLWE<Vec<u8>> = GLWE::alloc_from_infos(&ctx.p.glwe_infos());
                    use poulpy_core::GLWECopy;
                    ctx.module.glwe_copy(&mut g, &f);
                    g
                })
                .collect();
            // extra entries beyond T::BITS are ignored
            if n_given == bits {
                let f = ctx.enc::<T>(T::from128(1), 3);
                let mut g: GLWE<Vec<u8>> = GLWE::alloc_from_infos(&ctx.p.glwe_infos());
                use poulpy_core::GLWECopy;
                ctx.module.glwe_copy(&mut g, &f);
                cts.push(g);
            }
            let mut res: FheUint<Vec<u8>, T> = ctx.enc::<T>(T::from128(!v & T::mask()), 9);
            let mut scratch = scratch_dirty(5);
            res.pack(&ctx.module, cts, &ctx.key, scratch.borrow());
            let m = if n_given >= 128 { u128::MAX } else { (1u128 << n_given) - 1 };
            assert_eq!(ctx.dec(&res).to128(), v & m, "pack u{bits} v={v:#x} given={n_given}");
        }
    }
}

#[test]
fn pack_all_widths() {
    pack::<u8>(&CTX_LIB);
    pack::<u16>(&CTX_LIB);
    pack::<u32>(&CTX_LIB);
    pack::<u64>(&CTX_LIB);
    pack::<u32>(&CTX_N32);
    pack::<u8>(&CTX_N32);
}

/// prepared (fresh GGSW per bit) -> packed -> decrypt
fn roundtrip_prepared<T: W>(ctx: &Ctx) {
    let bits = T::BITS as usize;
    for (vi, v) in patterns::<T>().into_iter().enumerate() {
        let p = ctx.enc_prep::<T>(T::from128(v), vi as u8);
        assert_eq!(ctx.dec_prep(&p).to128(), v, "FheUintPrepared::decrypt u{bits} {v:#x}");
        let mut res: FheUint<Vec<u8>, T> = ctx.enc::<T>(T::from128(!v & T::mask()), 9);
        let mut scratch = scratch_dirty(6);
        res.from_fhe_uint_prepared(&ctx.module, &p, &ctx.key, scratch.borrow());
        assert_eq!(ctx.dec(&res).to128(), v, "from_fhe_uint_prepared u{bits} {v:#x}");
    }
}

#[test]
fn roundtrip_prepared_all_widths() {
    roundtrip_prepared::<u8>(&CTX_LIB);
    roundtrip_prepared::<u16>(&CTX_LIB);
    roundtrip_prepared::<u32>(&CTX_LIB);
    roundtrip_prepared::<u64>(&CTX_LIB);
    roundtrip_prepared::<u32>(&CTX_RANK1);
    roundtrip_prepared::<u32>(&CTX_N32);
}

/// Splice / sext applied to the output of a BDD operation and fed again to preparation.
#[test]
fn surgery_chained_with_ops() {
    let ctx = &*CTX_LIB;
    let a: u32 = 0x0000_7F80;
    let b: u32 = 0x0000_0001;
    let ap = ctx.prep(&ctx.enc::<u32>(a, 1));
    let bp = ctx.prep(&ctx.enc::<u32>(b, 2));
    let mut sum = ctx.enc::<u32>(0, 3);
    let mut scratch = scratch_dirty(7);
    sum.add(&ctx.module, &ap, &bp, &ctx.key, scratch.borrow());
    assert_eq!(ctx.dec(&sum), a + b);
    // sign-extend byte 0 of the sum (0x81 -> negative)
    sum.sext(&ctx.module, 0, &ctx.key, scratch.borrow());
    let want = (((a + b) as u8) as i8) as i32 as u32;
    assert_eq!(ctx.dec(&sum), want);
    let sp = ctx.prep(&sum);
    assert_eq!(ctx.dec_prep(&sp), want);
    let mut r = ctx.enc::<u32>(0, 4);
    r.srl(&ctx.module, &sp, &bp, &ctx.key, scratch.borrow());
    assert_eq!(ctx.dec(&r), want >> 1);
    // splice byte 3 of r into byte 1 of sum
    let mut c = ctx.enc::<u32>(0, 5);
    c.splice_u8(&ctx.module, 1, 3, &sum, &r, &ctx.key, scratch.borrow());
    let want2 = (want & 0xFFFF_00FF) | ((((want >> 1) >> 24) & 0xFF) << 8);
    assert_eq!(ctx.dec(&c), want2);
    assert_eq!(ctx.dec_prep(&ctx.prep(&c)), want2);
}

/// Operands of splice / sext with a different number of limbs than the destination.
#[test]
fn surgery_mixed_precision() {
    let ctx = &*CTX_LIB;
    let a: u32 = 0x8483_8281;
    let b: u32 = 0x1122_33C4;
    let enc_k = |v: u32, k: u32, seed: u8| {
        let infos = GLWELayout {
            k: TorusPrecision(k),
            ..ctx.p.glwe_infos()
        };
        let mut ct: FheUint<Vec<u8>, u32> = FheUint::alloc_from_infos(&infos);
        let mut scratch = scratch_dirty(seed);
        ct.encrypt_sk(
            &ctx.module,
            v,
            &ctx.sk,
            &EncryptionLayout::new_from_default_sigma(infos).unwrap(),
            &mut Source::new([seed; 32]),
            &mut Source::new([seed + 1; 32]),
            scratch.borrow(),
        );
        ct
    };
    for (ka, kb, kc) in [(39u32, 26u32, 26u32), (26, 39, 26), (26, 26, 39), (39, 39, 26), (13, 26, 26), (26, 13, 39), (52, 13, 26)] {
        let a_enc = enc_k(a, ka, 1);
        let b_enc = enc_k(b, kb, 3);
        let mut c = enc_k(0x5A5A_5A5A, kc, 5);
        let mut scratch = scratch_dirty(8);
        for (dst, src) in [(0usize, 0usize), (1, 3), (3, 0), (2, 2)] {
            c.splice_u8(&ctx.module, dst, src, &a_enc, &b_enc, &ctx.key, scratch.borrow());
            let want = (a & !(0xFFu32 << (8 * dst))) | (((b >> (8 * src)) & 0xFF) << (8 * dst));
            assert_eq!(ctx.dec(&c), want, "splice_u8 k=({ka},{kb},{kc}) dst={dst} src={src}");
        }
        c.splice_u16(&ctx.module, 1, 0, &a_enc, &b_enc, &ctx.key, scratch.borrow());
        assert_eq!(ctx.dec(&c), (a & 0xFFFF) | (b << 16), "splice_u16 k=({ka},{kb},{kc})");
        let mut s = enc_k(a, ka, 7);
        s.sext(&ctx.module, 1, &ctx.key, scratch.borrow());
        assert_eq!(ctx.dec(&s), (a as u16 as i16) as i32 as u32, "sext k={ka}");
    }
}
