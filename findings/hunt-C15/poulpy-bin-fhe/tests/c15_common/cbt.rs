// Circuit bootstrapping LWE -> GGSW, both output modes, every cell of the GGSW checked.

include!("cbt_lib.rs");

#[test]
fn to_constant_bits_and_small_domains() {
    let k = setup(C::LIB);
    run_constant(&k, 1, false);
    run_constant(&k, 2, false);
    run_constant(&k, 3, false);
}

#[test]
fn to_constant_shapes() {
    for (rank, dnum, res_k) in [(1usize, 1usize, 30usize), (1, 2, 45), (1, 4, 75), (2, 1, 30), (2, 2, 45), (2, 3, 60), (2, 4, 75)] {
        let k = setup(C {
            rank,
            res_dnum: dnum,
            res_k,
            ..C::LIB
        });
        run_constant(&k, 1, false);
    }
}

#[test]
fn to_constant_small_rings() {
    for (n_glwe, n_lwe) in [(64usize, 14usize), (128, 35), (512, 77)] {
        let k = setup(C {
            n_glwe,
            n_lwe,
            ..C::LIB
        });
        run_constant(&k, 1, false);
    }
}

#[test]
fn to_exponent_all_values_and_gaps() {
    let k = setup(C::LIB);
    for log_domain in [1usize, 2, 4] {
        // log_gap_out == log_n - log_domain (no repacking) is in c15_defects
        for log_gap_out in 0..(8 - log_domain) {
            run_exponent(&k, log_domain, log_gap_out);
        }
    }
}

#[test]
fn to_exponent_shapes() {
    for (rank, dnum, res_k) in [(1usize, 1usize, 30usize), (1, 2, 45), (2, 3, 60), (2, 4, 75)] {
        let k = setup(C {
            rank,
            res_dnum: dnum,
            res_k,
            ..C::LIB
        });
        run_exponent(&k, 2, 0);
        run_exponent(&k, 2, 3);
        run_exponent(&k, 3, 4);
    }
}

#[test]
fn extension_factor() {
    for ext in [2usize, 4] {
        let k = setup(C {
            extension_factor: ext,
            ..C::LIB
        });
        run_constant(&k, 1, false);
        run_constant(&k, 2, false);
        run_exponent(&k, 2, 1);
    }
}

/// exact scratch (rank 2: see c15_defects for rank 1)
#[test]
fn to_constant_exact_scratch() {
    let k = setup(C {
        rank: 2,
        ..C::LIB
    });
    run_constant(&k, 1, true);
}
