// Helpers: circuit bootstrapping LWE -> GGSW, both output modes, every cell of the GGSW checked.

use poulpy_bin_fhe::{
    blind_rotation::{BlindRotationKeyLayout, CGGI},
    circuit_bootstrapping::{
        CircuitBootstrappingEncryptionInfos, CircuitBootstrappingExecute, CircuitBootstrappingKey, CircuitBootstrappingKeyEncryptSk,
        CircuitBootstrappingKeyLayout, CircuitBootstrappingKeyPrepared,
    },
};
use poulpy_core::{
    EncryptionLayout, LWEEncryptSk,
    layouts::{
        Dsize, GGLWEToGGSWKeyLayout, GGSW, GGSWInfos, GGSWLayout, GLWEAutomorphismKeyLayout, GLWEInfos, GLWESecret,
        GLWESecretPrepared, GLWESecretPreparedFactory, LWE, LWELayout, LWEPlaintext, LWESecret,
    },
};
use poulpy_hal::{
    api::{ModuleNew, ScratchOwnedAlloc, ScratchOwnedBorrow},
    layouts::{DeviceBuf, Module, ScalarZnx, ScratchOwned, ZnxViewMut},
    source::Source,
};

#[derive(Clone, Copy, Debug)]
struct C {
    n_glwe: usize,
    n_lwe: usize,
    block_size: usize,
    rank: usize,
    res_base2k: usize,
    res_k: usize,
    res_dnum: usize,
    res_dsize: usize,
    extension_factor: usize,
}

impl C {
    // the library's own test parameters
    const LIB: C = C {
        n_glwe: 256,
        n_lwe: 77,
        block_size: 7,
        rank: 1,
        res_base2k: 15,
        res_k: 60,
        res_dnum: 3,
        res_dsize: 1,
        extension_factor: 1,
    };
}

struct K {
    c: C,
    module: Module<BE>,
    sk_lwe: LWESecret<Vec<u8>>,
    sk: GLWESecretPrepared<DeviceBuf<BE>, BE>,
    cbt: CircuitBootstrappingKeyPrepared<DeviceBuf<BE>, CGGI, BE>,
    ggsw_infos: GGSWLayout,
}

const BASE2K_LWE: usize = 14;

fn setup(c: C) -> K {
    let module: Module<BE> = Module::<BE>::new(c.n_glwe as u64);
    let base2k_brk = 13;
    let tsk_base2k = 12;
    let atk_base2k = 11;
    let k_brk = c.res_k + base2k_brk;
    let k_atk = c.res_k + tsk_base2k;
    let k_tsk = c.res_k + atk_base2k;
    let rows = c.res_k.div_ceil(11).max(4);
    let cbt_infos = CircuitBootstrappingKeyLayout {
        brk_layout: BlindRotationKeyLayout {
            n_glwe: c.n_glwe.into(),
            n_lwe: c.n_lwe.into(),
            base2k: base2k_brk.into(),
            k: k_brk.into(),
            dnum: rows.min(k_brk.div_ceil(base2k_brk) - 1).into(),
            rank: c.rank.into(),
        },
        atk_layout: GLWEAutomorphismKeyLayout {
            n: c.n_glwe.into(),
            base2k: atk_base2k.into(),
            k: k_atk.into(),
            dnum: rows.min(k_atk.div_ceil(atk_base2k) - 1).into(),
            rank: c.rank.into(),
            dsize: Dsize(1),
        },
        tsk_layout: GGLWEToGGSWKeyLayout {
            n: c.n_glwe.into(),
            base2k: tsk_base2k.into(),
            k: k_tsk.into(),
            dnum: rows.min(k_tsk.div_ceil(tsk_base2k) - 1).into(),
            dsize: Dsize(1),
            rank: c.rank.into(),
        },
    };
    let ggsw_infos = GGSWLayout {
        n: c.n_glwe.into(),
        base2k: c.res_base2k.into(),
        k: c.res_k.into(),
        dnum: c.res_dnum.into(),
        dsize: Dsize(c.res_dsize as u32),
        rank: c.rank.into(),
    };
    let mut scratch: ScratchOwned<BE> = ScratchOwned::alloc(1 << 24);
    let mut source_xs = Source::new([1u8; 32]);
    let mut source_xa = Source::new([2u8; 32]);
    let mut source_xe = Source::new([3u8; 32]);
    let mut sk_lwe: LWESecret<Vec<u8>> = LWESecret::alloc(c.n_lwe.into());
    sk_lwe.fill_binary_block(c.block_size, &mut source_xs);
    let mut sk_glwe: GLWESecret<Vec<u8>> = GLWESecret::alloc(c.n_glwe.into(), c.rank.into());
    sk_glwe.fill_ternary_prob(0.5, &mut source_xs);
    let mut sk: GLWESecretPrepared<DeviceBuf<BE>, BE> = module.glwe_secret_prepared_alloc(c.rank.into());
    module.glwe_secret_prepare(&mut sk, &sk_glwe);
    let mut key: CircuitBootstrappingKey<Vec<u8>, CGGI> = CircuitBootstrappingKey::alloc_from_infos(&cbt_infos);
    let enc = CircuitBootstrappingEncryptionInfos::from_default_sigma(&cbt_infos).unwrap();
    module.circuit_bootstrapping_key_encrypt_sk(&mut key, &sk_lwe, &sk_glwe, &enc, &mut source_xe, &mut source_xa, scratch.borrow());
    let mut cbt: CircuitBootstrappingKeyPrepared<DeviceBuf<BE>, CGGI, BE> = CircuitBootstrappingKeyPrepared::alloc_from_infos(&module, &cbt_infos);
    cbt.prepare(&module, &key, scratch.borrow());
    K {
        c,
        module,
        sk_lwe,
        sk,
        cbt,
        ggsw_infos,
    }
}

fn enc_lwe(k: &K, data: i64, log_domain: usize, seed: u8) -> LWE<Vec<u8>> {
    enc_lwe_radix(k, data, log_domain, seed, BASE2K_LWE)
}

#[allow(dead_code)]
fn enc_lwe_radix(k: &K, data: i64, log_domain: usize, seed: u8, base2k_lwe: usize) -> LWE<Vec<u8>> {
    let k_lwe_ct: usize = 22;
    let lwe_infos = LWELayout {
        n: k.c.n_lwe.into(),
        k: k_lwe_ct.into(),
        base2k: base2k_lwe.into(),
    };
    let mut pt: LWEPlaintext<Vec<u8>> = LWEPlaintext::alloc(base2k_lwe.into(), (log_domain + 1).into());
    pt.encode_i64(data, (log_domain + 1).into());
    let mut ct: LWE<Vec<u8>> = LWE::alloc_from_infos(&lwe_infos);
    let enc = EncryptionLayout::new_from_default_sigma(lwe_infos).unwrap();
    let mut scratch: ScratchOwned<BE> = ScratchOwned::alloc(1 << 20);
    k.module.lwe_encrypt_sk(
        &mut ct,
        &pt,
        &k.sk_lwe,
        &enc,
        &mut Source::new([seed; 32]),
        &mut Source::new([seed ^ 0x55; 32]),
        scratch.borrow(),
    );
    ct
}

/// Every cell: |error| < half the gadget unit of its row, i.e. the cell rounds to the wanted plaintext.
fn check_cells(k: &K, res: &GGSW<Vec<u8>>, want: &ScalarZnx<Vec<u8>>, what: &str) {
    let mut scratch: ScratchOwned<BE> = ScratchOwned::alloc(1 << 22);
    let dsize = res.dsize().as_usize();
    for row in 0..res.dnum().as_usize() {
        for col in 0..res.rank().as_usize() + 1 {
            let st = res.noise(&k.module, row, col, want, &k.sk, scratch.borrow());
            let gadget_log2 = -(((row + 1) * dsize * k.c.res_base2k) as f64);
            assert!(
                st.max().log2() < gadget_log2 - 1.0,
                "{what}: row={row} col={col}: max error 2^{:.2} (std 2^{:.2}) not below half the gadget 2^{gadget_log2}",
                st.max().log2(),
                st.std().log2()
            );
        }
    }
}

fn run_constant(k: &K, log_domain: usize, exact: bool) {
    for data in 0..(1i64 << log_domain) {
        let lwe = enc_lwe(k, data, log_domain, data as u8 + 7);
        let mut res: GGSW<Vec<u8>> = GGSW::alloc_from_infos(&k.ggsw_infos);
        {
            use poulpy_hal::layouts::FillUniform;
            res.fill_uniform(12, &mut Source::new([9u8; 32]));
        }
        let bytes = if exact {
            <Module<BE> as CircuitBootstrappingExecute<CGGI, BE>>::circuit_bootstrapping_execute_tmp_bytes(
                &k.module,
                k.c.block_size,
                k.c.extension_factor,
                &k.ggsw_infos,
                &k.cbt,
            )
        } else {
            1 << 24
        };
        let mut scratch: ScratchOwned<BE> = ScratchOwned::alloc(bytes);
        {
            use rand::Rng;
            Source::new([4u8; 32]).fill_bytes(&mut scratch.borrow().data);
        }
        k.cbt
            .execute_to_constant(&k.module, &mut res, &lwe, log_domain, k.c.extension_factor, scratch.borrow());
        let mut want: ScalarZnx<Vec<u8>> = ScalarZnx::alloc(k.c.n_glwe, 1);
        want.at_mut(0, 0)[0] = data;
        check_cells(k, &res, &want, &format!("to_constant {:?} log_domain={log_domain} data={data}", k.c));
    }
}

fn run_exponent(k: &K, log_domain: usize, log_gap_out: usize) {
    for data in 0..(1i64 << log_domain) {
        let lwe = enc_lwe(k, data, log_domain, data as u8 + 17);
        let mut res: GGSW<Vec<u8>> = GGSW::alloc_from_infos(&k.ggsw_infos);
        {
            use poulpy_hal::layouts::FillUniform;
            res.fill_uniform(12, &mut Source::new([9u8; 32]));
        }
        let mut scratch: ScratchOwned<BE> = ScratchOwned::alloc(1 << 24);
        {
            use rand::Rng;
            Source::new([4u8; 32]).fill_bytes(&mut scratch.borrow().data);
        }
        k.cbt.execute_to_exponent(
            &k.module,
            log_gap_out,
            &mut res,
            &lwe,
            log_domain,
            k.c.extension_factor,
            scratch.borrow(),
        );
        // X^{data * 2^log_gap_out}
        let mut want: ScalarZnx<Vec<u8>> = ScalarZnx::alloc(k.c.n_glwe, 1);
        let e = (data as usize) << log_gap_out;
        assert!(e < k.c.n_glwe);
        want.at_mut(0, 0)[e] = 1;
        check_cells(
            k,
            &res,
            &want,
            &format!("to_exponent {:?} log_domain={log_domain} log_gap_out={log_gap_out} data={data}", k.c),
        );
    }
}

