// Blind rotation / selection / retrieval driven by the bits of an encrypted integer.

include!("ctx.rs");

use poulpy_bin_fhe::bdd_arithmetic::{
    Cmux, Cswap, GGSWBlindRotation, GLWEBlindRetrieval, GLWEBlindRetriever, GLWEBlindRotation, GLWEBlindSelection,
};
use poulpy_core::{
    GGSWEncryptSk, GLWEDecrypt, GLWEEncryptSk,
    layouts::{GGSW, GLWE, GLWEPlaintext},
};
use poulpy_hal::layouts::{ScalarZnx, ZnxView, ZnxViewMut};
use std::collections::HashMap;
use std::sync::LazyLock;

// same as the library's blind-rotation tests: three rows
const PB: P = P {
    ggsw: (13, 39, 3, 1),
    ..P::LIB
};
static CTX: LazyLock<Ctx> = LazyLock::new(|| Ctx::new(PB));

fn big() -> ScratchOwned<BE> {
    let mut s: ScratchOwned<BE> = ScratchOwned::alloc(1 << 22);
    dirty(&mut s, 0x77);
    s
}
fn exact(bytes: usize) -> ScratchOwned<BE> {
    let mut s: ScratchOwned<BE> = ScratchOwned::alloc(bytes);
    dirty(&mut s, 0x78);
    s
}

fn enc_poly(ctx: &Ctx, data: &[i64], seed: u8) -> GLWE<Vec<u8>> {
    let infos = ctx.p.glwe_infos();
    let mut pt: GLWEPlaintext<Vec<u8>> = GLWEPlaintext::alloc_from_infos(&infos);
    pt.encode_vec_i64(data, TorusPrecision(ctx.p.glwe.0));
    let mut ct: GLWE<Vec<u8>> = GLWE::alloc_from_infos(&infos);
    let enc_infos = EncryptionLayout::new_from_default_sigma(infos).unwrap();
    let mut xa = Source::new([seed; 32]);
    let mut xe = Source::new([seed ^ 0xF0; 32]);
    ctx.module
        .glwe_encrypt_sk(&mut ct, &pt, &ctx.sk, &enc_infos, &mut xe, &mut xa, big().borrow());
    ct
}

fn dec_poly(ctx: &Ctx, ct: &GLWE<Vec<u8>>) -> Vec<i64> {
    let infos = ctx.p.glwe_infos();
    let mut pt: GLWEPlaintext<Vec<u8>> = GLWEPlaintext::alloc_from_infos(&infos);
    ctx.module.glwe_decrypt(ct, &mut pt, &ctx.sk, big().borrow());
    let mut out = vec![0i64; ctx.p.n_glwe as usize];
    pt.decode_vec_i64(&mut out, TorusPrecision(ctx.p.glwe.0));
    out
}

/// data * X^r in Z[X]/(X^N+1)
fn rot(data: &[i64], r: i64) -> Vec<i64> {
    let n = data.len() as i64;
    let mut out = vec![0i64; data.len()];
    let r = r.rem_euclid(2 * n);
    for (i, x) in data.iter().enumerate() {
        let j = (i as i64 + r) % (2 * n);
        if j < n {
            out[j as usize] = *x;
        } else {
            out[(j - n) as usize] = -*x;
        }
    }
    out
}

#[test]
fn glwe_blind_rotation_all_windows() {
    let ctx = &*CTX;
    let m = &ctx.module;
    let n = ctx.p.n_glwe as usize;
    let data: Vec<i64> = (0..n as i64).map(|i| (i % 200) - 100).collect();
    let a = enc_poly(ctx, &data, 1);
    assert_eq!(dec_poly(ctx, &a), data);
    let ks: [u32; 4] = [0xFFFF_FFFF, 0x9E37_79B9, 0x0000_0001, 0x8000_0000];
    for (ki, k) in ks.iter().enumerate() {
        let kp = ctx.enc_prep::<u32>(*k, ki as u8);
        for rsh in [0usize, 1, 7, 24, 29, 31] {
            for nbits in [0usize, 1, 2, 3, 8] {
                if rsh + nbits > 32 {
                    continue;
                }
                for lsh in [0usize, 1, 5, 8, 9, 12] {
                    for sign in [true, false] {
                        let field = if nbits == 0 { 0 } else { ((*k >> rsh) as u64 & ((1u64 << nbits) - 1)) as i64 };
                        let r = field << lsh;
                        let want = rot(&data, if sign { r } else { -r });
                        // out of place, exact scratch
                        let mut res: GLWE<Vec<u8>> = enc_poly(ctx, &vec![7i64; n], 9);
                        let bytes = m.glwe_blind_rotation_tmp_bytes(&ctx.p.glwe_infos(), &ctx.p.ggsw_infos());
                        m.glwe_blind_rotation(&mut res, &a, &kp, sign, rsh, nbits, lsh, exact(bytes).borrow());
                        assert_eq!(dec_poly(ctx, &res), want, "k={k:#x} rsh={rsh} nbits={nbits} lsh={lsh} sign={sign}");
                        // in place
                        let mut res2: GLWE<Vec<u8>> = enc_poly(ctx, &data, 1);
                        m.glwe_blind_rotation_assign(&mut res2, &kp, sign, rsh, nbits, lsh, exact(bytes).borrow());
                        assert_eq!(dec_poly(ctx, &res2), want, "assign k={k:#x} rsh={rsh} nbits={nbits} lsh={lsh} sign={sign}");
                    }
                }
            }
        }
    }
}

/// The selector is the output of circuit bootstrapping instead of a fresh GGSW.
/// (payload kept at 6 bits: a bootstrapped GGSW carries ~2^-30 of noise, see prepare_every_cell)
#[test]
fn glwe_blind_rotation_bootstrapped_selector() {
    let ctx = &*CTX;
    let n = ctx.p.n_glwe as usize;
    let data: Vec<i64> = (0..n as i64).map(|i| (i % 13) - 6).collect();
    let infos = ctx.p.glwe_infos();
    let mut pt: GLWEPlaintext<Vec<u8>> = GLWEPlaintext::alloc_from_infos(&infos);
    pt.encode_vec_i64(&data, TorusPrecision(6));
    let mut a: GLWE<Vec<u8>> = GLWE::alloc_from_infos(&infos);
    let enc_infos = EncryptionLayout::new_from_default_sigma(infos).unwrap();
    ctx.module.glwe_encrypt_sk(
        &mut a,
        &pt,
        &ctx.sk,
        &enc_infos,
        &mut Source::new([1u8; 32]),
        &mut Source::new([2u8; 32]),
        big().borrow(),
    );
    for k in [0x0000_01FFu32, 0x0000_0155, 0xABCD_0080, 0] {
        let kp = ctx.prep(&ctx.enc::<u32>(k, 3));
        for sign in [true, false] {
            let mut res: GLWE<Vec<u8>> = GLWE::alloc_from_infos(&infos);
            ctx.module.glwe_blind_rotation(&mut res, &a, &kp, sign, 0, 9, 0, big().borrow());
            ctx.module.glwe_decrypt(&res, &mut pt, &ctx.sk, big().borrow());
            let mut have = vec![0i64; n];
            pt.decode_vec_i64(&mut have, TorusPrecision(6));
            let r = (k & 0x1FF) as i64;
            let want = rot(&data, if sign { r } else { -r });
            let diff: Vec<(usize, i64, i64)> = have
                .iter()
                .zip(want.iter())
                .enumerate()
                .filter(|(_, (a, b))| a != b)
                .map(|(i, (a, b))| (i, *a, *b))
                .collect();
            assert!(diff.is_empty(), "k={k:#x}: {} coefficients differ, first {:?}", diff.len(), &diff[..diff.len().min(6)]);
        }
    }
}

#[test]
fn ggsw_blind_rotations() {
    use poulpy_core::DEFAULT_SIGMA_XE;
    let ctx = &*CTX;
    let m = &ctx.module;
    let n = ctx.p.n_glwe as usize;
    let res_infos = GGSWLayout {
        dnum: Dnum(2),
        ..ctx.p.ggsw_infos()
    };
    let mut scalar: ScalarZnx<Vec<u8>> = ScalarZnx::alloc(n, 1);
    scalar.raw_mut().iter_mut().enumerate().for_each(|(i, x)| *x = (i as i64 % 5) - 2);
    let sdata: Vec<i64> = scalar.raw().to_vec();

    // a GGSW of the scalar, to be rotated
    let mut a: GGSW<Vec<u8>> = GGSW::alloc_from_infos(&res_infos);
    let enc_infos = EncryptionLayout::new_from_default_sigma(res_infos).unwrap();
    let mut xa = Source::new([5u8; 32]);
    let mut xe = Source::new([6u8; 32]);
    m.ggsw_encrypt_sk(&mut a, &scalar, &ctx.sk, &enc_infos, &mut xe, &mut xa, big().borrow());

    let max_noise = |col: usize| {
        let mut noise: f64 = -(res_infos.size() as f64 * res_infos.base2k().as_usize() as f64) + DEFAULT_SIGMA_XE.log2() + 4.0;
        noise += 0.5 * res_infos.log_n() as f64;
        if col != 0 {
            noise += 0.5 * res_infos.log_n() as f64
        }
        noise
    };

    let k: u32 = 0xC0DE_F1A5;
    // selector with more precision than the result, as in the library's own test
    let sel_infos = GGSWLayout {
        k: TorusPrecision(52),
        dnum: Dnum(3),
        ..ctx.p.ggsw_infos()
    };
    let mut kp: FheUintPrepared<DeviceBuf<BE>, u32, BE> = FheUintPrepared::alloc_from_infos(m, &sel_infos);
    kp.encrypt_sk(
        m,
        k,
        &ctx.sk,
        &EncryptionLayout::new_from_default_sigma(sel_infos).unwrap(),
        &mut Source::new([14u8; 32]),
        &mut Source::new([15u8; 32]),
        big().borrow(),
    );
    for (rsh, nbits, lsh) in [(0usize, 4usize, 0usize), (3, 5, 2), (27, 5, 4), (31, 1, 8), (8, 0, 0), (12, 3, 6)] {
        for sign in [true, false] {
            let field = if nbits == 0 { 0 } else { ((k >> rsh) & ((1u32 << nbits) - 1)) as i64 };
            let r = field << lsh;
            let want = rot(&sdata, if sign { r } else { -r });
            let mut want_s: ScalarZnx<Vec<u8>> = ScalarZnx::alloc(n, 1);
            want_s.raw_mut().copy_from_slice(&want);

            let check = |g: &GGSW<Vec<u8>>, what: &str| {
                for row in 0..res_infos.dnum.as_usize() {
                    for col in 0..res_infos.rank.as_usize() + 1 {
                        let have = g.noise(m, row, col, &want_s, &ctx.sk, big().borrow()).std().log2();
                        assert!(
                            have <= max_noise(col),
                            "{what} rsh={rsh} nbits={nbits} lsh={lsh} sign={sign} row={row} col={col}: {have} > {}",
                            max_noise(col)
                        );
                    }
                }
            };

            let mut res: GGSW<Vec<u8>> = GGSW::alloc_from_infos(&res_infos);
            {
                use poulpy_hal::layouts::FillUniform;
                res.fill_uniform(12, &mut Source::new([8u8; 32]));
            }
            let b = GGSWBlindRotation::<u32, BE>::scalar_to_ggsw_blind_rotation_tmp_bytes(m, &res_infos, &sel_infos);
            GGSWBlindRotation::<u32, BE>::scalar_to_ggsw_blind_rotation(m, &mut res, &scalar, &kp, sign, rsh, nbits, lsh, exact(b).borrow());
            check(&res, "scalar_to_ggsw");

            let mut res: GGSW<Vec<u8>> = GGSW::alloc_from_infos(&res_infos);
            {
                use poulpy_hal::layouts::FillUniform;
                res.fill_uniform(12, &mut Source::new([8u8; 32]));
            }
            let b = GGSWBlindRotation::<u32, BE>::ggsw_to_ggsw_blind_rotation_tmp_bytes(m, &res_infos, &sel_infos);
            GGSWBlindRotation::<u32, BE>::ggsw_blind_rotation(m, &mut res, &a, &kp, sign, rsh, nbits, lsh, exact(b).borrow());
            check(&res, "ggsw_blind_rotation");

            let mut res: GGSW<Vec<u8>> = GGSW::alloc_from_infos(&res_infos);
            for row in 0..res_infos.dnum.as_usize() {
                for col in 0..res_infos.rank.as_usize() + 1 {
                    use poulpy_core::GLWECopy;
                    m.glwe_copy(&mut res.at_mut(row, col), &a.at(row, col));
                }
            }
            GGSWBlindRotation::<u32, BE>::ggsw_blind_rotation_assign(m, &mut res, &kp, sign, rsh, nbits, lsh, exact(b).borrow());
            check(&res, "ggsw_blind_rotation_assign");
        }
    }
}

fn enc_const(ctx: &Ctx, v: i64, seed: u8) -> GLWE<Vec<u8>> {
    let mut d = vec![0i64; ctx.p.n_glwe as usize];
    d[0] = v;
    d[1] = -v; // a second coefficient, to see that whole polynomials move
    enc_poly(ctx, &d, seed)
}
fn dec_const(ctx: &Ctx, ct: &GLWE<Vec<u8>>) -> i64 {
    let d = dec_poly(ctx, ct);
    assert_eq!(d[1], -d[0]);
    assert!(d[2..].iter().all(|x| *x == 0));
    d[0]
}

#[test]
fn glwe_blind_selection_windows_and_maps() {
    let ctx = &*CTX;
    let m = &ctx.module;
    let bytes = GLWEBlindSelection::<u32, BE>::glwe_blind_selection_tmp_bytes(m, &ctx.p.glwe_infos(), &ctx.p.ggsw_infos());
    // which keys of the map are present
    let presence: Vec<(&str, Box<dyn Fn(usize) -> bool>)> = vec![
        ("dense", Box::new(|_| true)),
        ("mult3", Box::new(|i| i % 3 == 0)),
        ("odd", Box::new(|i| i % 2 == 1)),
        ("only_last", Box::new(|i| i == 7 || i == 15)),
        ("no_zero", Box::new(|i| i != 0)),
        ("empty", Box::new(|_| false)),
    ];
    for nbits in 0usize..=4 {
        for rsh in [0usize, 1, 13, 32 - nbits] {
            let garbage: u32 = 0xA5A5_5A5A;
            for idx in 0..(1usize << nbits) {
                let fieldmask: u32 = if nbits == 0 { 0 } else { ((1u64 << nbits) - 1) as u32 };
                let k: u32 = (garbage & !(fieldmask.checked_shl(rsh as u32).unwrap_or(0))) | ((idx as u32).checked_shl(rsh as u32).unwrap_or(0));
                let kp = ctx.enc_prep::<u32>(k, (idx + nbits) as u8);
                for (pname, pres) in presence.iter() {
                    // 20 candidates: keys beyond 2^nbits are ignored
                    let mut cts: Vec<GLWE<Vec<u8>>> = (0..20).map(|i| enc_const(ctx, 100 + i as i64, i as u8)).collect();
                    let mut map: HashMap<usize, &mut GLWE<Vec<u8>>> = HashMap::new();
                    for (i, ct) in cts.iter_mut().enumerate() {
                        if pres(i) {
                            map.insert(i, ct);
                        }
                    }
                    let mut res: GLWE<Vec<u8>> = enc_const(ctx, -5, 99);
                    GLWEBlindSelection::<u32, BE>::glwe_blind_selection(m, &mut res, map, &kp, rsh, nbits, exact(bytes).borrow());
                    let want = if pres(idx) { 100 + idx as i64 } else { 0 };
                    assert_eq!(dec_const(ctx, &res), want, "nbits={nbits} rsh={rsh} idx={idx} map={pname}");
                }
            }
        }
    }
}

#[test]
fn glwe_blind_retriever_sizes_counts_offsets() {
    let ctx = &*CTX;
    let m = &ctx.module;
    let infos = ctx.p.glwe_infos();
    let data: Vec<GLWE<Vec<u8>>> = (0..25).map(|i| enc_const(ctx, 50 + i as i64, i as u8)).collect();
    for size in [2usize, 3, 4, 5, 7, 8, 9, 16, 25] {
        let mut retriever = GLWEBlindRetriever::alloc(&infos, size);
        for count in 1..=size {
            if size > 9 && ![1, 2, size / 2, size - 1, size].contains(&count) {
                continue;
            }
            for offset in [0usize, 2, 27] {
                for idx in 0..count {
                    if (idx << offset) >> offset != idx || ((idx as u64) << offset) > u32::MAX as u64 {
                        continue;
                    }
                    let k: u32 = ((idx as u32) << offset) | if offset > 0 { (1 << offset) - 1 } else { 0 };
                    let kp = ctx.enc_prep::<u32>(k, idx as u8);
                    let mut res: GLWE<Vec<u8>> = enc_const(ctx, -3, 98);
                    retriever.retrieve(m, &mut res, &data[..count], &kp, offset, big().borrow());
                    assert_eq!(dec_const(ctx, &res), 50 + idx as i64, "size={size} count={count} offset={offset} idx={idx}");
                }
            }
        }
        // no input: zero
        let kp = ctx.enc_prep::<u32>(0, 0);
        let mut res: GLWE<Vec<u8>> = enc_const(ctx, -3, 98);
        retriever.retrieve(m, &mut res, &data[..0], &kp, 0, big().borrow());
        assert_eq!(dec_const(ctx, &res), 0);
    }
}

#[test]
fn glwe_blind_retrieval_statefull_lengths() {
    let ctx = &*CTX;
    let m = &ctx.module;
    let bytes = m.glwe_blind_retrieval_tmp_bytes(&ctx.p.glwe_infos(), &ctx.p.ggsw_infos());
    for len in [1usize, 2, 3, 4, 5, 6, 7, 8, 9, 25] {
        let vals: Vec<i64> = (0..len as i64).map(|i| 60 + i).collect();
        let mut data: Vec<GLWE<Vec<u8>>> = vals.iter().enumerate().map(|(i, v)| enc_const(ctx, *v, i as u8)).collect();
        let min_bits = (usize::BITS - (len - 1).leading_zeros()) as usize;
        for nbits in [min_bits, min_bits + 1, 5] {
            for rsh in [0usize, 3, 32 - nbits] {
                for idx in 0..len {
                    if len > 9 && idx % 6 != 0 && idx != len - 1 {
                        continue;
                    }
                    let k: u32 = ((idx as u64) << rsh) as u32 | ((1u64 << rsh) - 1) as u32;
                    let kp = ctx.enc_prep::<u32>(k, idx as u8);
                    m.glwe_blind_retrieval_statefull(&mut data, &kp, rsh, nbits, exact(bytes).borrow());
                    assert_eq!(dec_const(ctx, &data[0]), vals[idx], "len={len} nbits={nbits} rsh={rsh} idx={idx}");
                    m.glwe_blind_retrieval_statefull_rev(&mut data, &kp, rsh, nbits, exact(bytes).borrow());
                    for i in 0..len {
                        assert_eq!(dec_const(ctx, &data[i]), vals[i], "rev len={len} nbits={nbits} rsh={rsh} idx={idx} i={i}");
                    }
                }
                // refresh the ciphertexts (each pass adds a little noise)
                data = vals.iter().enumerate().map(|(i, v)| enc_const(ctx, *v, i as u8)).collect();
            }
        }
    }
}

#[test]
fn cmux_cswap_exact_scratch() {
    let ctx = &*CTX;
    let m = &ctx.module;
    let gi = ctx.p.glwe_infos();
    let si = ctx.p.ggsw_infos();
    for bit in [0u32, 1] {
        let kp = ctx.enc_prep::<u32>(bit << 5, bit as u8);
        let s = kp.get_bit(5);
        let t = enc_const(ctx, 11, 1);
        let f = enc_const(ctx, 22, 2);
        let mut res = enc_const(ctx, 33, 3);
        m.cmux(&mut res, &t, &f, &s, exact(m.cmux_tmp_bytes(&gi, &gi, &si)).borrow());
        assert_eq!(dec_const(ctx, &res), if bit == 1 { 11 } else { 22 });

        let mut r = enc_const(ctx, 11, 1);
        m.cmux_assign(&mut r, &f, &s, exact(m.cmux_tmp_bytes(&gi, &gi, &si)).borrow());
        assert_eq!(dec_const(ctx, &r), if bit == 1 { 11 } else { 22 }, "cmux_assign: res = (res - a) s + a");

        let mut a = enc_const(ctx, 11, 1);
        let mut b = enc_const(ctx, 22, 2);
        m.cswap(&mut a, &mut b, &s, exact(m.cswap_tmp_bytes(&gi, &gi, &si)).borrow());
        assert_eq!((dec_const(ctx, &a), dec_const(ctx, &b)), if bit == 1 { (22, 11) } else { (11, 22) });
    }
}

/// scalar -> GGSW with two-limb digits (dsize = 2): the scalar lands on limb (dsize-1) + row*dsize.
#[test]
fn scalar_to_ggsw_dsize2() {
    use poulpy_core::DEFAULT_SIGMA_XE;
    let ctx = &*CTX;
    let m = &ctx.module;
    let n = ctx.p.n_glwe as usize;
    let res_infos = GGSWLayout {
        k: TorusPrecision(65),
        dnum: Dnum(2),
        dsize: Dsize(2),
        ..ctx.p.ggsw_infos()
    };
    let sel_infos = GGSWLayout {
        k: TorusPrecision(78),
        dnum: Dnum(5),
        ..ctx.p.ggsw_infos()
    };
    let k: u32 = 0x0000_00B7;
    let mut kp: FheUintPrepared<DeviceBuf<BE>, u32, BE> = FheUintPrepared::alloc_from_infos(m, &sel_infos);
    kp.encrypt_sk(
        m,
        k,
        &ctx.sk,
        &EncryptionLayout::new_from_default_sigma(sel_infos).unwrap(),
        &mut Source::new([14u8; 32]),
        &mut Source::new([15u8; 32]),
        big().borrow(),
    );
    let mut scalar: ScalarZnx<Vec<u8>> = ScalarZnx::alloc(n, 1);
    scalar.raw_mut().iter_mut().enumerate().for_each(|(i, x)| *x = (i as i64 % 3) - 1);
    let sdata: Vec<i64> = scalar.raw().to_vec();
    for sign in [true, false] {
        let r = (k & 0xFF) as i64;
        let want = rot(&sdata, if sign { r } else { -r });
        let mut want_s: ScalarZnx<Vec<u8>> = ScalarZnx::alloc(n, 1);
        want_s.raw_mut().copy_from_slice(&want);
        let mut res: GGSW<Vec<u8>> = GGSW::alloc_from_infos(&res_infos);
        let b = GGSWBlindRotation::<u32, BE>::scalar_to_ggsw_blind_rotation_tmp_bytes(m, &res_infos, &sel_infos);
        GGSWBlindRotation::<u32, BE>::scalar_to_ggsw_blind_rotation(m, &mut res, &scalar, &kp, sign, 0, 8, 0, exact(b).borrow());
        for row in 0..2 {
            for col in 0..3 {
                let have = res.noise(m, row, col, &want_s, &ctx.sk, big().borrow()).std().log2();
                let max = -(res_infos.size() as f64 * 13.0) + DEFAULT_SIGMA_XE.log2() + 4.0 + 8.0;
                assert!(have <= max, "dsize 2 sign={sign} row={row} col={col}: {have} > {max}");
            }
        }
    }
}
