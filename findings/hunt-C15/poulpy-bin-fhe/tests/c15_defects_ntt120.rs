//! C15 - defect reproducers (expected to FAIL on the unmodified library), NTT120Ref backend.
type BE = poulpy_cpu_ref::NTT120Ref;
include!("c15_common/defects.rs");
