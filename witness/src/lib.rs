//! Compile-fail witnesses (type-level clauses of C11 / C12 / C17 / C20) with compiling twins.
//! Every `compile_fail` block has a twin that differs only by the offending line and must compile, so that a witness
//! whose paths are merely wrong cannot pass.

/// W1 (C11 / C17, "no byte of a read-only operand is modified"): a view over `&[u8]` cannot hand out mutable limbs.
///
/// ```compile_fail,E0599
/// use poulpy_hal::layouts::{VecZnx, ZnxViewMut};
/// let owned: VecZnx<Vec<u8>> = VecZnx::alloc(8, 1, 2);
/// use poulpy_hal::layouts::VecZnxToRef;
/// let mut ro: VecZnx<&[u8]> = owned.to_ref();
/// ro.at_mut(0, 0)[0] = 1; // ZnxViewMut needs DataMut
/// ```
///
/// Twin:
/// ```
/// use poulpy_hal::layouts::{VecZnx, ZnxViewMut};
/// let mut owned: VecZnx<Vec<u8>> = VecZnx::alloc(8, 1, 2);
/// use poulpy_hal::layouts::VecZnxToMut;
/// let mut rw: VecZnx<&mut [u8]> = owned.to_mut();
/// rw.at_mut(0, 0)[0] = 1;
/// ```
pub struct W1ReadOnlyViews;

/// W2 (C12 / C17, "two live temporaries never share scratch bytes"): taking from a scratch borrows it mutably for as long as
/// the temporary lives; the parent scratch cannot be carved again meanwhile.
///
/// ```compile_fail,E0499
/// use poulpy_hal::{api::{ScratchOwnedAlloc, ScratchOwnedBorrow, ScratchTakeBasic}, layouts::{ScratchOwned, ZnxViewMut}};
/// use poulpy_cpu_ref::FFT64Ref;
/// let mut owned: ScratchOwned<FFT64Ref> = ScratchOwned::alloc(1 << 12);
/// let scratch = owned.borrow();
/// let (mut a, _rest) = scratch.take_vec_znx(8, 1, 2);
/// let (mut b, _rest2) = scratch.take_vec_znx(8, 1, 2); // second carve of the same bytes
/// a.at_mut(0, 0)[0] = 1;
/// b.at_mut(0, 0)[0] = 2;
/// ```
///
/// Twin (carving the remainder):
/// ```
/// use poulpy_hal::{api::{ScratchOwnedAlloc, ScratchOwnedBorrow, ScratchTakeBasic}, layouts::{ScratchOwned, ZnxViewMut}};
/// use poulpy_cpu_ref::FFT64Ref;
/// let mut owned: ScratchOwned<FFT64Ref> = ScratchOwned::alloc(1 << 12);
/// let scratch = owned.borrow();
/// let (mut a, rest) = scratch.take_vec_znx(8, 1, 2);
/// let (mut b, _rest2) = rest.take_vec_znx(8, 1, 2);
/// a.at_mut(0, 0)[0] = 1;
/// b.at_mut(0, 0)[0] = 2;
/// ```
pub struct W2ScratchCarving;

/// W3 (C06, "independent encryptions draw independent streams"): a `Source` cannot be duplicated; a second stream has to be
/// derived explicitly with `branch()` / `new_seed()`, which advances the parent.
///
/// ```compile_fail,E0599
/// use poulpy_hal::source::Source;
/// let mut s = Source::new([7u8; 32]);
/// let mut t = s.clone(); // would replay the same stream
/// let _ = (s.new_seed(), t.new_seed());
/// ```
///
/// Twin:
/// ```
/// use poulpy_hal::source::Source;
/// let mut s = Source::new([7u8; 32]);
/// let (_seed, mut t) = s.branch();
/// let _ = (s.new_seed(), t.new_seed());
/// ```
pub struct W3SourceNotClone;

// (No witness for "dimension fields are only writable through set_size": the fields `n`, `cols`, `size`, `max_size` of the layout
// types are `pub`, so `v.size = 100` compiles in any crate. MS-2 therefore only speaks about the library's own stores; see DESIGN.md.)

/// W4 (C12 / C17, "no dangling view"): a temporary carved from a scratch cannot outlive the buffer that owns the bytes.
///
/// ```compile_fail,E0515
/// use poulpy_hal::{api::{ScratchOwnedAlloc, ScratchOwnedBorrow, ScratchTakeBasic}, layouts::{ScratchOwned, VecZnx}};
/// use poulpy_cpu_ref::FFT64Ref;
/// fn leak<'a>() -> VecZnx<&'a mut [u8]> {
///     let mut owned: ScratchOwned<FFT64Ref> = ScratchOwned::alloc(1 << 12);
///     let (a, _rest) = owned.borrow().take_vec_znx(8, 1, 2);
///     a
/// }
/// let _ = leak();
/// ```
///
/// Twin:
/// ```
/// use poulpy_hal::{api::{ScratchOwnedAlloc, ScratchOwnedBorrow, ScratchTakeBasic}, layouts::{ScratchOwned, VecZnx, ZnxInfos}};
/// use poulpy_cpu_ref::FFT64Ref;
/// fn keep() -> usize {
///     let mut owned: ScratchOwned<FFT64Ref> = ScratchOwned::alloc(1 << 12);
///     let (a, _rest) = owned.borrow().take_vec_znx(8, 1, 2);
///     a.size()
/// }
/// let _ = keep();
/// ```
pub struct W4NoDanglingTemporaries;

/// W5 (C17, "a temporary is as large as the view built over it"): the backend tag of a DFT temporary taken from scratch must be the
/// backend of the module that sized it.  (Today this compiles: see known_findings.jsonl.)
///
/// ```compile_fail,E0277
/// use poulpy_hal::{api::{ModuleNew, ScratchOwnedAlloc, ScratchOwnedBorrow, ScratchTakeBasic}, layouts::{Module, ScratchOwned}};
/// use poulpy_cpu_ref::{FFT64Ref, NTT120Ref};
/// let module: Module<FFT64Ref> = Module::<FFT64Ref>::new(8);
/// let mut owned: ScratchOwned<FFT64Ref> = ScratchOwned::alloc(1 << 12);
/// let scratch = owned.borrow();
/// // bytes are counted with FFT64Ref's scalar, the view is typed with NTT120Ref's (four times larger)
/// let (_v, _rest) = scratch.take_vec_znx_dft::<Module<FFT64Ref>, NTT120Ref>(&module, 1, 1);
/// ```
///
/// Twin:
/// ```
/// use poulpy_hal::{api::{ModuleNew, ScratchOwnedAlloc, ScratchOwnedBorrow, ScratchTakeBasic}, layouts::{Module, ScratchOwned}};
/// use poulpy_cpu_ref::FFT64Ref;
/// let module: Module<FFT64Ref> = Module::<FFT64Ref>::new(8);
/// let mut owned: ScratchOwned<FFT64Ref> = ScratchOwned::alloc(1 << 12);
/// let scratch = owned.borrow();
/// let (_v, _rest) = scratch.take_vec_znx_dft::<Module<FFT64Ref>, FFT64Ref>(&module, 1, 1);
/// ```
pub struct W5BackendTagOfTemporaries;
