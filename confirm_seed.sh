#!/bin/bash
# usage: confirm_seed.sh <worktree> <seed-id> <crate> <test-name> [full]
# Confirms a seeded change in a scratch worktree: demo fails with the change, passes without; optionally runs the existing suite.
# Writes /verif/seeded/<seed-id>/{patch.diff,demo/*,confirm.log}
set -u
WT=$1; ID=$2; CRATE=$3; TEST=$4; FULL=${5:-}
OUT=/verif/seeded/$ID
mkdir -p $OUT/demo
cd $WT || exit 2
export CARGO_NET_OFFLINE=true
export CARGO_TARGET_DIR=$WT/target
LOG=$OUT/confirm.log
: > $LOG
# split: library change = tracked modifications; demo = untracked files
git diff > $OUT/patch.diff
git ls-files --others --exclude-standard | grep -v '^target/\|seed.patch\|\.log$' > /tmp/demo-files-$ID.txt
while read f; do mkdir -p $OUT/demo/$(dirname $f); cp $f $OUT/demo/$f; done < /tmp/demo-files-$ID.txt
echo "== demo WITH change" >> $LOG
RUSTFLAGS="${CONFIRM_RUSTFLAGS:-}" cargo test --offline -j 8 -p $CRATE ${CONFIRM_FEATURES:-} --test $TEST >> $LOG 2>&1; W=$?
echo "exit=$W" >> $LOG
git apply -R $OUT/patch.diff
echo "== demo WITHOUT change" >> $LOG
RUSTFLAGS="${CONFIRM_RUSTFLAGS:-}" cargo test --offline -j 8 -p $CRATE ${CONFIRM_FEATURES:-} --test $TEST >> $LOG 2>&1; WO=$?
echo "exit=$WO" >> $LOG
git apply $OUT/patch.diff
S=skipped
if [ -n "$FULL" ]; then
  echo "== existing suite WITH change (demo file moved aside)" >> $LOG
  while read f; do mv $f /tmp/$(basename $f).aside-$ID; done < /tmp/demo-files-$ID.txt
  cargo test --workspace --offline --no-fail-fast -j 8 2>&1 | grep -E "^test result|FAILED|failed|panicked" >> $LOG; 
  if grep -q "FAILED\|[1-9][0-9]* failed" <(sed -n '/existing suite/,$p' $LOG); then S=fail; else S=pass; fi
  while read f; do mv /tmp/$(basename $f).aside-$ID $f; done < /tmp/demo-files-$ID.txt
fi
echo "SUMMARY with_change_exit=$W without_change_exit=$WO suite=$S" | tee -a $LOG
