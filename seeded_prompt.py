#!/usr/bin/env python3
"""prints the sub-agent prompt for a property id and a worktree (property text only, nothing from /verif machinery)"""
import json, sys
pid, wt = sys.argv[1], sys.argv[2]
extra = sys.argv[3] if len(sys.argv) > 3 else ""
p = [json.loads(l) for l in open('/verif/properties.jsonl') if json.loads(l)['id'] == pid][0]
print(f"""You are helping to evaluate a verification effort on the Rust FHE library poulpy (phantomzone-org/poulpy). Your job: craft ONE realistic, subtle code change (a "seeded defect") to the library that BREAKS the semantic property below, while the code still compiles and the existing test suite still passes. Work ONLY inside your own scratch git worktree of the repository at {wt} (never touch /repo, never read or write anything under /verif). The sandbox is offline: always pass --offline to cargo (or set CARGO_NET_OFFLINE=true); nothing can be downloaded.

PROPERTY {p['id']}: {p['title']}
Statement: {p['statement']}
Quantified over: {p['quantifier']['text']}
Why tests cannot settle it: {p.get('why_tests_cant','')}
Code the property is anchored in (files): {', '.join(p['anchors']['files'])}
Mechanisms: {json.dumps(p['anchors'].get('mechanism', []))}

What to produce:
1. A change to the library source (not to tests) in {wt} that violates the property. Prefer a change that needs something specific to manifest — an unusual input or shape (e.g. a particular rank/limb count/radix/thread count/truncation point), a multi-step sequence of operations, a particular interleaving, or two cooperating sites that each look fine alone — NOT one that ordinary use would expose at once. It should look like a plausible maintainer mistake or over-eager optimisation (a few lines), not sabotage. {extra}
2. The change must still compile (`cargo build --workspace --offline` in {wt}) and the EXISTING test suite must still pass with it: run `cargo test --workspace --offline --no-fail-fast 2>&1 | tail -40` in {wt} (takes several minutes; to save time you may first `cp -r /repo/target {wt}/target` to reuse dependency builds; use at most 6 parallel jobs: `-j 6`). If some test fails with your change, pick a different change. (If you want, confirm the baseline passes before you edit.)
3. A demonstration: a NEW test file or small program (e.g. an integration test under the relevant crate's `tests/` directory, or an example) that FAILS with your change and PASSES without it (verify both: run it with the change, then save the source change with `git diff -- '*.rs' ':!*/tests/*' > {wt}/seed.patch`, undo it with `git apply -R {wt}/seed.patch`, run the demonstration again, and re-apply it with `git apply {wt}/seed.patch`; do NOT use `git stash` - the stash is shared with other worktrees). The demonstration should exercise the public API and check the property directly.
4. Leave the worktree with the source change and the demonstration applied (uncommitted is fine). Then report back, concisely: (a) `git -C {wt} diff` restricted to library source (the seeded change), (b) the path(s) of the demonstration file(s) you added and the exact command to run it, (c) its output with and without the change (last lines), (d) the result of the full existing test suite with the change (the final 'test result' lines), (e) one paragraph: what the change needs in order to manifest and why the existing tests miss it.

Constraints: do not modify existing tests; do not add dependencies; keep the change small; do not touch /repo or /verif; do not delete the worktree.""")
