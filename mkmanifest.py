#!/usr/bin/env python3
"""Generates MANIFEST.json from the table below (single source of truth for claims)."""
import json, os
HERE = os.path.dirname(os.path.abspath(__file__))

NA = {
}

# id -> (level category, level text, design_ref, level_note, technique, has_thorough)
CLAIMS = {
 "C14": ("other",
         "Only the skip guards of the CGGI accumulator update are decided (ROT-1): on the closure chain of the execute variants, an update acc[i] += X^e * u[j] - u[i] whose execution depends on a comparison of (an expression of) the exponent with zero has j == i symbolically - for the extended accumulator the update between two different interleaved polynomials does not vanish for X^e = 1 (DESIGN section 9 row 65, a wrong rotation for mask coefficients in +-{1..ext-1}). The modulus switch of the LWE sample (a known arithmetic defect for small LWE radices is listed in DESIGN section 9b), the table encoding, the rotation arithmetic and the noise are not decided.",
         "DESIGN.md §8 (C14), §9 row 65, §9b",
         "Trusted: svp_apply_dft_to_dft(x_pow_a[e], u) multiplies u by X^e; x_pow_a[0] = 1. Thin, single-clause claim.",
         "symbolic operand identity along the closure chain + dominance of the exponent guard", True),
 "C01": ("other",
         "Only the placement and truncation of the fresh error and the radix agreement of the plaintext are decided. NoiseInfos::target_limb_and_scale puts an error of precision k on the limb and with the scale 2^s for which (limb + 1) * base2k - s == k and 0 <= s < base2k, for every k >= 1 and radix (ERR-1, piecewise-linear identity over the expressions extracted from MIR); every Gaussian sampling shape function asks for that placement with its own radix, writes the limb it names and scales sigma and bound with the factor it returned (ERR-2, RND-9); every scalar sampler stores only samples that passed the rejection test against its own bound, or clamps to it (ERR-3); every encryption that takes a GLWE / LWE plaintext compares the plaintext's radix with the ciphertext's before moving limbs (POS-1, DESIGN section 9 row 60). With C06's call discipline (noise injected once on every path) these are necessary conditions of 'error at most the configured bound at the encryption precision, message at its own position'. The magnitude of the decryption error (1-norms of secrets, rounding), the normalisation arithmetic and the mask products are not decided.",
         "DESIGN.md §8 (C01), §9 row 60",
         "Trusted: rand_distr::Normal; noise injected exactly once per encryption (RND-1 / RND-7 under C06). Thin, clause-scoped claim.",
         "piecewise-linear identity over extracted expressions + dominance of the rejection test + interprocedural radix-comparison reachability", True),
 "C13": ("proof",
         "All 290 (circuit, output bit) Boolean functions of the shipped tables are computed exactly (ROBDDs, all 2^64 inputs) from the constants in the type-checked source and compared with the reference word functions; well-formedness (ranges, width, def-before-use) is checked on every node; the interpreter's semantics is tied to MIR of eval_level/get_bit and the operation->table binding to the trait impls.",
         "DESIGN.md §3 C13",
         "Trusted: rustc front end, fact emitter, the ROBDD package (self-checked each run), 10 reference word functions; assumes cmux selects hi on bit=1 (C04) and the thread partition maps bit i to circuit i (checked under C20).",
         "abstract interpretation of constant tables over ROBDDs + MIR pattern match of the evaluator", True),

 "C15": ("other",
         "Only the bit placement and the table / thread bindings of C15 are decided. UnsignedInteger::bit_index - the map from logical bit i to the coefficient of the packed GLWE - is shown, for every implementing word type (u8 .. u128), to be a permutation of [0, BITS) that places bit t of byte b at b + t * 2^LOG_BYTES (the stride the byte-isolating trace and the byte rotations rely on), by interpreting the MIR of the straight-line integer function on all BITS inputs with the associated constants of each impl (an exhaustive evaluation of a constant table, as for C13); the associated constants are consistent with BITS (BIT-2); every shipped u32 circuit computes its word function for all 2^64 inputs and each word operation is bound to its table (BDD-0..5, the C13 proof, shared); the multi-threaded evaluators and the partial-preparation windows address every bit exactly once (THR-4 / THR-6 / THR-7, shared with C20). Bootstrapping, noise growth, key-switching, trace / packing and the homomorphic pipeline are not decided.",
         "DESIGN.md §8 (C15)",
         "Trusted: cmux / circuit bootstrapping / trace compute what C04 / C14 / C03 state. Thin, clause-scoped claim.",
         "exhaustive interpretation of a constant index map from MIR + shared ROBDD proof + partition identities", True),
 "C20": ("other",
         "Structural non-interference argument: no shared mutable state anywhere in the library crates (statics, interior mutability, atomics/locks/thread_local), backend handle only read through Module::ptr, no unsafe in the threaded crate, and at both thread::scope sites the partition is exact (chunk = ceil(items/threads) of the very slice chunked, same `threads` for the scratch windows, global index = base + thread*chunk + local, decided as polynomial identities over MIR); single-thread variants forward with threads = 1; window parameters (<x>_start / _end / _count) keep their role across forwarding calls (THR-6); a chunk length items.div_ceil(threads) is floored at 1 or the empty case is decided before (THR-7). Decides the scheduling/partition clauses for every thread count at once; does not execute anything, so bit-equality of the per-item computation relies on C11/C12 clauses.",
         "DESIGN.md §3 C20",
         "Trusted: rustc borrow checker and std::thread::scope; per-item determinism is delegated to C11/C12 rules.",
         "MIR dataflow + polynomial identity of partition indices + type/field walk for shared state", True),

 "C18": ("other",
         "Taint/dominance analysis on MIR of all 30 ReaderFrom impls (+ inherent readers) and their writers: stream-derived header values never enter unchecked arithmetic (in the reader or in a library function they are handed to), allocation lengths or slice bounds that are not compared with the very slice indexed; dimension fields are committed only after a dominating validation chain that ends at the receiver's buffer; no failure is reachable after a metadata commit (documented atomicity); writer and reader emit/consume the same sequence of (width, endianness, field, nesting) items on every success path; no backend code involved; delegated reads inside element loops count as commits (SER-3); a receiver container whose length bounds the incoming length is not replaced by the commit (SER-8); a committed capacity is the validated header value or that value clamped to what the receiver's buffer holds (SER-2). Decides the reject-without-corruption and format-agreement clauses for every stream at once; equality of payload bytes is not decided.",
         "DESIGN.md §3 C18",
         "Trusted: std::io read_exact/write_all and byteorder semantics; genuine violations on the unchanged tree are listed in known_findings.jsonl (8: multi-part keys commit sub-objects / elements one after the other).",
         "MIR taint tracking + dominator-based guard validation + path-trace comparison of writer/reader", True),

 "C06": ("other",
         "Interprocedural role inference over every `&mut Source` / seed value (fixpoint over ~300 functions in all layers and backends) plus must-call analysis on the do-while-abstracted CFG: every routine that draws a mask or error stream injects noise on every returning path; result-writing normalisations in the three noise kernels are dominated by a noise sink in the same loop; mask streams feed masks only; parameters named source_xe/source_xa/seed_xa/source_xu have exactly that role; NoiseInfos comes from the caller's enc_infos; noise, mask and normalisation use one radix; no constant or loop-invariant seeds; no other entropy; HashMap iteration order neutralised; fixed-Hamming-weight samplers set each of their hw slots to a value that is non-zero for both values of the random bit (RND-8); sigma and truncation bound of every Gaussian sampling site carry the same scale factor (RND-9). Decides the injection / seed-separation / determinism clauses on all paths of all routines; sigma, bound and uniformity statistics are not decided.",
         "DESIGN.md §3 C06",
         "Trusted: the sampling primitives below the HAL behave as documented; do-while abstraction of row/column loops.",
         "MIR dataflow: interprocedural role inference + post-dominator must-call + symbolic radix equality", True),

 "C19": ("other",
         "Structural agreement of compressor, expander and standard encryption on MIR: same kernel with the compressed flag constant (true/false); the stored seed is the seed of the stream that masked the cell (Source::new(s) / branch()) and the store reaches the caller's object rather than a cloned view; the seed-table index used by the encryptor equals, as a polynomial over (row, col, layout accessors), the index used by the layout's at/at_mut that feed the expander; the expander seeds one stream from the stored seed and fills columns 1..rank+1 in ascending order with the object's radix, the same loop shape as the kernel; row plaintext placement agrees between standard and compressed matrix routines; each infos accessor of a compressed layout delegates to the wrapped object's accessor of the same name, reads data dimensions or has its standard sibling's shape (CMP-6); matrix expanders compare the digit size of receiver and compressed operand (CMP-7); every *Decompress trait is implemented for Module (CMP-8). Decides these clauses for all ranks/dnum/dsize at once; bit-identity of cells is not executed.",
         "DESIGN.md §3 C19",
         "Trusted: kernel arithmetic (C01) and sampling primitives; accessor atoms compared by name.",
         "MIR dataflow + polynomial identity of seed indices + iterator-shape matching", True),

 "C11": ("other",
         "On MIR of every HAL shape function of the reference and AVX crates (operands paired with their *_col argument): overwrite-type operations hand every limb of [0, res.size()) to a kernel on every returning path - decided exactly by evaluating the min/max range bounds over every ordering of the operand sizes (148 functions covered, 18 outside the limb-range idiom listed as undecided); a conditional limb write needs another write for the same limb; every accessor on operand X uses column X_col (371 sites, polynomial identity); no store goes through a pointer derived from a read-only operand; core noise-free operations write every result column; raw-slice kernels taking limb_offset zero-fill from exactly one stride after the last written limb (WR-4); every mutable use of a column-selected output operand is column-selective (WR-5); carry buffers of the shift / normalisation functions are written before they are read on every feasible path, zero-trip loops included (WR-6); core operations read an operand only at columns below its own rank + 1 (COL-2); block extraction into an output covers every row of the destination block (WR-7); no overwrite-type first operation hits a loop-invariant result column inside a loop over inputs (WR-8); a kernel handed res.raw_mut() receives the column (WR-2) and a kernel writing a single limb leaves the other limbs of the column defined (WR-1); thorough tier: compile-fail witness that a read-only view cannot hand out mutable limbs. Bytes inside a limb (kernel contracts) are not decided.",
         "DESIGN.md §3 C11, §8",
         "Trusted: kernels write the whole limb slice they are given; unknown guards are assumed falsifiable.",
         "MIR loop/range extraction + exact min/max lattice evaluation of limb coverage + column polynomial identity", True),
 "C09": ("other",
         "Only the size rule of C09 (extra result limbs zero, extra operand limbs ignored, exact column) is decided: WR-1/WR-2 restricted to the C09 anchor files and agreement of the small / FFT64-big / NTT120-big implementations on their coverage verdict, plus two sign-discipline clauses: in res = a - b families a write from b alone negates and a write from a alone does not (SIGN-1), and a negacyclic split kernel's one-polarity path, and any skip of a rotation kernel, is decided by the residue of the exponent modulo 2N (SIGN-2); the Galois-element helpers use the ring degree only as 2*n() / cyclotomic_order() (SIGN-3). Index maps mod 2N, group laws, split/merge are not decided.",
         "DESIGN.md §3 C02 and C09, §8",
         "Trusted: per-limb kernels compute the ring map.",
         "shared limb-coverage / column analysis restricted to the C09 files + sibling verdict comparison", True),
 "C03": ("other",
         "Only structural clauses of C03 are decided: the digit loop of the gadget product of the key-switching family (gglwe_product_dft) selects the operand limbs with step == dsize and an offset that, added to the limb offset at which the digit's product is accumulated, gives dsize - 1 on every path of the loop body (KS-1, path-wise piecewise-linear identity over expressions extracted from MIR); the Galois-element helpers compute in (Z/2NZ)* with the cyclotomic order only (SIGN-3); vmp kernels with a limb offset zero-fill what they do not write (WR-4). The zeroing of multi-digit accumulators and the scratch declarations of the family are decided under C12. Noise, the gadget arithmetic, trace / packing / sample extraction are not decided. Also decided (RAD-1/RAD-2): every cross-radix conversion of the family that is skipped or taken on a radix comparison is guarded by the comparison of exactly its input and output radices, and no operation asserting equal radices is called on a branch whose guards make its operands' radices differ.",
         "DESIGN.md §8 (C03)",
         "Trusted: vec_znx_dft_copy / vec_znx_dft_apply select limbs offset, offset + step, ...; vmp accumulates at limb_offset. Thin, clause-scoped claim.",
         "path-wise piecewise-linear identity over the digit loop + shared structural rules", True),
 "C04": ("other",
         "Only structural clauses of C04 are decided: the digit loop of the external product (glwe_external_product_internal) satisfies step == dsize and offset + limb_offset == dsize - 1 on every path (KS-1); each CMux form (cmux, cmux_assign, cmux_assign_neg) computes (x - y) * s + y with the operand added back after the product being the subtrahend of the difference that was multiplied (CMUX-1), so that - given the external product - a selector bit returns exactly one of the two inputs; vmp kernels with a limb offset zero-fill what they do not write (WR-4). m1 * m2 within noise, GGSW row expansion and radix mismatches are not decided. Also decided (RAD-1/RAD-2, external products, cswap, cmux): conversions are guarded by the comparison of the radices they convert between; no radix-asserting operation is called with operands the dominating guards make different (the cross-radix cswap defect, DESIGN §9 row 56).",
         "DESIGN.md §8 (C04)",
         "Trusted: the external product multiplies by the GGSW plaintext. Thin, clause-scoped claim.",
         "path-wise piecewise-linear identity over the digit loop + operand-role matching of the CMux forms", True),
 "C05": ("other",
         "Only the split of the convolution offset is decided: each of the seven convolution-based products of poulpy-core (glwe_mul_const[_assign], glwe_mul_plain[_assign], glwe_tensor_apply, glwe_tensor_apply_add_assign, glwe_tensor_square_apply) derives a limb offset `hi` and an intra-limb offset `lo` from `cnv_offset`, hands `hi` to every convolution kernel call and `lo` to every big normalisation of the function, and hi * base2k + lo + base2k == cnv_offset holds on every path for every offset and radix - a piecewise-linear identity decided on the expressions extracted from MIR (path-specific definitions, the path's comparisons as side conditions); squaring, multiplying and the accumulating form derive the split from the same expressions (CNV-2). The CKKS callers' choice of cnv_offset is decided under C16 (CK-9). Convolution kernels, partial-limb masks, relinearisation and noise are not decided. Also decided: raw column offsets of the convolution kernels use the limb count of the indexed operand (WR-2c); relinearisation converts the tensor into the key radix exactly when those two radices differ (RAD-1, DESIGN §9 row 55) and no radix-asserting operation is called with provably different radices (RAD-2).",
         "DESIGN.md §8 (C05)",
         "Trusted: cnv_* kernels shift by `hi` limbs and vec_znx_big_normalize by `lo` bits; the `+ base2k` of the law is read off the code (identical in all seven products). Thin, clause-scoped claim.",
         "path-wise piecewise-linear identity over expressions extracted from MIR + sibling agreement", True),
 "C07": ("other",
         "Only the limb bookkeeping of C07 is decided - the clauses 'truncated to the requested limbs' and 'transform-domain add/sub/copy/limb-select act limb-wise' - on MIR of the DFT-domain shape functions of both families (vec_znx_dft, svp, vmp, convolution): overwrite-type operations, including dft_apply with its (step, offset) selection and selections that point past the last limb, hand every limb of the selected result column to a kernel or zero it (WR-1, exact over all orderings of the operand sizes); accessors use the operand's own column (WR-2); vector-matrix products with a limb offset zero-fill from exactly one stride after the last written limb (WR-4); the block extraction of the convolution covers every row of its destination block (WR-7) and reads no more rows than the source has limbs (MS-8); the FFT64 and NTT120 shape functions bound their work by the same quantities (BK-9); wrapping integer products use a full-width multiply on AVX (BK-8). Floating-point error, lazy-reduction budgets, CRT reconstruction, butterflies and the identity of forward/inverse transforms are not decided.",
         "DESIGN.md §8 (C07)",
         "Trusted: kernels compute the transform / product on the limbs they are given. Thin, clause-scoped claim built from rules shared with C10, C11 and C17 (four of the repaired defects - 509bc53, c0d9a18, a964edc, 2ac01c0 - sit in these files).",
         "MIR loop/range extraction + exact min/max lattice evaluation of limb coverage + family comparison", True),
 "C08": ("other",
         "Only the structure of the carry chains of C08 is decided, on MIR of the normalisation / shift shape functions (small and big accumulators, FFT64 and NTT120 families): the final normalisation step closes a chain (NRM-1); the carry buffer is initialised before a middle / final step reads it on every feasible path, zero-trip loops and single-limb cases included (WR-6); a right shift passes the carry through exactly size(operand) + steps normalisation steps for every operand size, result size and shift - a piecewise-linear identity over the loop trip counts, so that the carry out of the top limb lands on the right limb also when the shift exceeds the precision of the result (NRM-2); every limb of the selected result column is produced and no other column is addressed (WR-1/WR-2 on the C08 files); the AVX step kernels apply the digit / carry helpers per lsh branch as often as their reference twins (BK-6). Digit arithmetic, rounding, balanced digits, cross-radix accumulation and integer encoding / decoding are not decided. Also decided: same-radix offset normalisations run max(size(operand) - limb_offset, 0) chain steps for every size and offset (NRM-3, DESIGN §9 row 57); the scalar step kernels pair get_carry(b, x, d) with d = get_digit(b, x), never carry a digit source on by a plain shift, never drop a computed carry (DC-1).",
         "DESIGN.md §8 (C08), §9 rows 17, 20, 53, 57",
         "Trusted: the step kernels compute balanced digit / carry; this is a thin, clause-scoped claim (three carry-chain defects of the shift family were found and repaired through these rules).",
         "MIR typestate of carry buffers + piecewise-linear identity over loop trip counts + limb/column coverage", True),
 "C02": ("other",
         "Only the shape clause of C02 is decided: result columns of the noise-free GLWE operations are all written (COL-1, over every rank assignment of a grid), the underlying shape functions cover every limb and honour columns (WR-1/WR-2 on the C02 files), each in-place variant uses the in-place twins of its out-of-place sibling's HAL operations (SIB-1), and the operand-sign discipline of the add/sub families holds for mixed ranks (SIGN-1), the in-place negating forms visit every column of the result (COL-1), read operands are indexed within their own rank (COL-2) and limb-wise two-operand operations compare the radices of the objects they move limbs between (COL-3), the carry chain of every right shift has size(operand) + steps steps for all sizes and shifts (NRM-2, piecewise-linear identity over loop trip counts) and carry buffers are written before they are read (WR-6). Phase linearity is arithmetic and not decided.",
         "DESIGN.md §3 C02 and C09, §8",
         "Trusted: HAL kernels; asserted rank preconditions.",
         "shared limb/column coverage analysis + call-set comparison of assign twins", True),

 "C12": ("other",
         "Structural scratch accounting on MIR. SC-1: for the 438 (operation, companion) pairs whose size query mirrors the operation's nesting of takes (found through the entry guards or by name, frozen in rules/sc1_pairs.json), the scratch chain of the operation is simulated on every path (takes accumulate, consumers need their own declared companion, closures and un-companioned helpers inlined) and every demand monomial must be contained - as a multiset of size-atom kinds, nested queries expanded - in a monomial of the companion's max-plus expression on every compatible path; HAL queries stay uninterpreted so the verdict covers every backend. SC-2: entry guards name the operation's own (family) companion. SC-3: on every path the first effective use of an object taken from scratch initialises it (path-sensitive typestate over 220+ take sites, closures followed, interprocedural per-parameter summaries, set_size-before-write tracked so that 'written at a reduced size, grown, accumulated' is reported). SC-4: takes that cannot be 64-byte multiples followed by another consumer must be padded by the companion. SC-5: only the scratch carver builds scratch views from raw bytes. SC-6: a temporary created from a layout literal and handed to a nested operation is declared by the nested query on a literal with dominated fields. SC-7: at size-query call sites a role-named usize argument sits in the parameter position of that name (declared trait names). SC-1 also reports, for pairs outside mirror form, the uncovered demand monomials listed with a failing input in rules/sc1_confirmed.json while they stay uncovered. SC-8: every operand whose size a taken temporary grows with occurs in the companion's term of the same kind (every pair; takes of free helpers and of query-less internal routines included). SC-9: vectors of temporaries alive together are paid for by the companion. SC-10: an operation called on the remainder of its caller's scratch does not demand the caller's own query again. SC-11: column counts handed to size queries are not integer literals >= 2. SC-12: a dispatching operation is mirrored by a query deciding on the same quantities. SC-13: per-thread windows handed to split_mut contain no bare LWE-sized term. SC-14: a size query with a `threads` parameter multiplies its per-thread query by that parameter. Thorough tier: compile-fail witnesses for scratch carving and dangling temporaries. Argument-level arithmetic of the size queries and pairs not in mirror form are not decided.",
         "DESIGN.md §3 C12, §8, §9",
         "Trusted: modular assumption (each callee meets its own declaration), monotone size queries; mirror-form table frozen from the reference tree.",
         "max-plus symbolic accounting over MIR paths + path-sensitive typestate of scratch temporaries", True),

 "C16": ("other",
         "Metadata-write and error-path discipline of the CKKS layer on MIR: CKKSMeta is written only by the owning modules (78 sites); every usize subtraction of budget/precision accessors is dominated by a comparison establishing minuend >= subtrahend over the same value numbers (or is one of two reasoned table exceptions); automorphism-key lookups and checked budget arithmetic are never unwrapped; every out-of-place `*_into*` operation defines both dst.meta fields on every success return (interprocedural summary over 60 operations through delegates and backend impls); an equality fast path and the ordering branches following it compare the same pair of quantities; the parameter derivation of ct x ct multiplication is invariant under exchanging the operands (CK-6); a core operation asserting k.div_ceil(base2k) == x.size() is not handed (x, x.effective_k()) (CK-7, the never-panics clause for non-compact operands); every out-of-place operation consults the destination's capacity before storing source-derived metadata (CK-8); exponent balance of products - ct x ct: cnv_offset + res_log_budget == budget_a + budget_b, ct x pt: the plaintext's bit position is independent of the ciphertext's metadata, constants sit at their effective_k - decided as piecewise-linear identities over the expressions extracted from MIR (CK-9); the offset returned by ensure_plaintext_alignment is used (CK-10); value-preserving operations satisfy shift(operand) + stored result log_budget == operand log_budget on every success path (CK-11, path-wise). Slot values and error magnitudes are not decided.",
         "DESIGN.md §3 C16",
         "Trusted: a ciphertext with metadata (log_delta, log_budget) holds m * 2^-log_budget on the torus and cnv_offset scales a product by 2^cnv_offset (CK-9's laws); other poulpy-core shape asserts are outside the property; metadata need not be untouched on Err.",
         "MIR dominator-based guard analysis + interprocedural must-define summary + comparison-chain consistency + piecewise-linear identity checking of extracted metadata expressions", True),

 "C17": ("other",
         "The structural invariants the unchecked accessors rely on, decided on MIR: the raw offset of at_ptr/at_mut_ptr plus the limb length stays within n*cols*size under unconditional index asserts (polynomial identity after substituting the asserted maxima), at/raw build slices of exactly n / n*poly_count scalars; every one of the 86 construction sites of the nine layout types and the 19 from_data call sites wraps data with dimensions consistent with it (re-view without altered dimensions, allocation / take_slice of bytes_of of the very same dims, checked sub-slice); dimension fields are mutated only by set_size (guarded by max_size) and the readers (validated, shared with C18) inside the library (the fields are pub, so this says nothing about other crates); block-extraction kernels read a number of rows bounded by the limbs of the source view, followed up the call chain to the take (MS-8); the scratch carver's sub-slices end inside the buffer it splits (MS-9, polynomial inequality over usize quantities); every dimension of a layout type is a factor of its accessor bound and both raw accessors are guarded (MS-7); slice -> array pointer casts are dominated by a length check that survives release builds (MS-10); std::alloc::alloc is dominated by a size != 0 test (MS-12); thorough tier: compile-fail witnesses W1, W2, W4, W5 (W5 - a temporary tagged with a foreign backend - compiles today and is a known finding); scratch carving ownership, no store through read-only operands, handle immutability (shared rules). Admissibility preconditions and SIMD butterfly index arithmetic are not decided.",
         "DESIGN.md §3 C17, §8",
         "Trusted: objects built by the enumerated idioms satisfy n*cols*size*size_of(Scalar) <= data.len(); kernel-internal index arithmetic.",
         "MIR polynomial bound check of accessor offsets + construction/mutation site idiom matching + shared taint/ownership rules", True),

 "C10": ("other",
         "Wiring agreement on MIR of the AVX configuration the test suite never compiles: all 208 HalImpl methods of the Ref and AVX backend of each family forward to the same shared shape function (one reasoned exception); kernel-trait tables agree and each of ~100 AVX kernel methods is the twin of the Ref kernel (same function, falls back to it, same name stem, or one of four frozen name pairs); the sampling chain is shared and backend independent; small/FFT64-big/NTT120-big siblings agree on limb coverage; every target_feature kernel with a `len >> k` trip count handles the remainder; AVX normalisation step kernels apply the digit/carry helpers per lsh branch as often as their reference twins; in-place and out-of-place forms of an AVX kernel use the same arithmetic intrinsics (BK-7); reference-inline kernels are matched with same-name AVX callees receiving the parameters in order; where the reference kernel multiplies with i64::wrapping_mul the AVX kernel does not use the 32-bit _mm256_mul_epi32 (BK-8); same-name shape functions of the FFT64 and NTT120 reference families bound a parameter by quantities depending on the same parameters (BK-9). Bit-equality of kernel arithmetic is not decided.",
         "DESIGN.md §3 C10",
         "Trusted: arithmetic inside matched twins; FFT64 vs NTT120 numerical agreement.",
         "impl-table / call-graph comparison across backends + loop-remainder and helper-skeleton analysis of SIMD kernels", True),
}
NOT_BUILT = {}

def main():
    props = [json.loads(l)["id"] for l in open(os.path.join(HERE, "properties.jsonl"))]
    checks = []
    na = []
    for pid in props:
        if pid in CLAIMS:
            cat, text, ref, note, tech, thorough = CLAIMS[pid]
            c = {
                "property_id": pid,
                "quick_cmd": "./pzv check %s --tier quick" % pid,
                "evidence_file": "/verif/evidence/%s.json" % pid,
                "replay_cmd_template": "./pzv explain {path}",
                "engine": "pzv",
                "level_claimed": {"category": cat, "text": text, "design_ref": ref},
                "level_note": note,
                "technique": tech,
            }
            if thorough:
                c["thorough_cmd"] = "./pzv check %s --tier thorough" % pid
            checks.append(c)
        elif pid in NA:
            na.append({"property_id": pid, "reason": NA[pid]})
        else:
            na.append({"property_id": pid, "reason": NOT_BUILT.get(pid, "static check designed (DESIGN.md §3) but not yet built in this tree; not claimed until it is")})
    m = {
        "version": 1,
        "setup_cmd": "./pzv setup",
        "hooks": {
            "guard": "phantomzone_org_poulpy_verif",
            "enable": "none needed: all facts are read from the type-checked source by a rustc driver (RUSTC_WORKSPACE_WRAPPER); the guard name is reserved but unused",
            "baseline_off_cmd": "cd /repo && cargo nextest run --workspace --no-fail-fast --test-threads 8 --offline || cargo test --workspace --no-fail-fast --offline",
            "source_commits": [],
            "add_only": True,
        },
        "engines": [
            {"name": "pz-mir", "path": "pz-mir/", "serves_properties": sorted(CLAIMS), "kind_free_text": "rustc_private driver emitting MIR/HIR/impl-table facts as JSON (no rules inside)"},
            {"name": "pzrules", "path": "pzrules/", "serves_properties": sorted(CLAIMS), "kind_free_text": "Python rule library over the facts: CFG/dominators/loops, origin slices, call resolution, per-property rule modules"},
            {"name": "robdd", "path": "pzrules/robdd.py", "serves_properties": ["C13"], "kind_free_text": "reduced ordered BDD package + table interpreter"},
        ],
        "checks": checks,
        "not_applicable": na,
        "notes": "Technique family: static analysis. Every check rebuilds facts from /repo's working tree when its source digest changes (pzrules/build.py). Known findings: known_findings.jsonl.",
    }
    with open(os.path.join(HERE, "MANIFEST.json"), "w") as f:
        json.dump(m, f, indent=1)
    print("claimed:", [c["property_id"] for c in checks])
    print("n/a:", [n["property_id"] for n in na])

main()
