#!/bin/bash
REPO=${REPO:-/repo}; export PZ_REPO=$REPO   # the batteries may be pointed at a scratch clone (REPO=/tmp/x PZ_CACHE=/tmp/y); the registered checks always use /repo
# Checker regression test: re-introduce each defect that was repaired in /repo (reverse of its "fix:" commit) and require the
# named property's check to report a violation; then require silence on the restored tree.  /repo must be clean.
if [ -n "$(git -C $REPO status --porcelain)" ]; then echo "REPO DIRTY - refusing"; exit 3; fi
cd /verif
declare -A PROP=( [af93168]="C18" [509bc53]="C11" [e912a11]="C12" [7203897]="C12" [3983467]="C12" [e9eab0f]="C10" [c0d9a18]="C11" [dff15cb]="C12" [01f6eb6]="C12" [9b31440]="C12" [e3ae179]="C12" [8e4d69d]="C12" [63ac85b]="C11" [614bd84]="C02" [59969d4]="C11" [2b225c0]="C02" [686d473]="C18" [e5ed23f]="C10" [a649160]="C11" [a964edc]="C11" [7647190]="C11" [7fe7718]="C17" [6f29d73]="C17" [bb2e779]="C17" [97e6ed3]="C18" [22768a5]="C19" [c90b8d3]="C19" [4eeffd2]="C19" [4779779]="C16" [3a4f11f]="C16" [9d05a07]="C16" [a9efc06]="C16" [42e2002]="C16" [ac396cb]="C10" [2ac01c0]="C10" [0c06582]="C12" [85c2e5f]="C12" [7f48e02]="C12" [84fe886]="C12" [c8f3f1c]="C12" [bcb7fff]="C12" [1af582f]="C12" [3f66f70]="C17" [f269555]="C02" [e183672]="C06" [bac249f]="C19" [5bfdf76]="C20" [71148b6]="C20" [6ce04d4]="C02" [ba701d5]="C05" [c39089b]="C04" [cebdde8]="C08" [91e6f24]="C07" [85c4d28]="C07" [8e34ff6]="C01" [a22d6d1]="C04" [ebc8c9f]="C03" [7e7f390]="C05" [0d76d89]="C17" [3320657]="C14" [659ef08]="C01" [7c2bb1e]="C12" [f3277d3]="C15" [c6e57d2]="C16" [ed3c8f4]="C16" [be7562f]="C10" [4474f8c]="C16" [73da185]="C19" )
rc=0
for c in ${ONLY:-af93168 509bc53 e912a11 7203897 3983467 e9eab0f c0d9a18 dff15cb 01f6eb6 9b31440 e3ae179 8e4d69d 63ac85b 614bd84 59969d4 2b225c0 686d473 e5ed23f a649160 a964edc 7647190 7fe7718 6f29d73 bb2e779 97e6ed3 22768a5 c90b8d3 4eeffd2 4779779 3a4f11f 9d05a07 a9efc06 42e2002 ac396cb 2ac01c0 0c06582 85c2e5f 7f48e02 84fe886 c8f3f1c bcb7fff 1af582f 3f66f70 f269555 e183672 bac249f 5bfdf76 71148b6 6ce04d4 ba701d5 c39089b cebdde8 91e6f24 85c4d28 8e34ff6 a22d6d1 ebc8c9f 7e7f390 0d76d89 3320657 659ef08 7c2bb1e f3277d3 c6e57d2 ed3c8f4 be7562f 4474f8c 73da185}; do
  prop=${PROP[$c]}
  if ! git -C $REPO apply --check $PWD/selftest/reverts/$c.diff 2>/dev/null; then echo "$c $prop revert-does-not-apply"; rc=1; continue; fi
  git -C $REPO apply $PWD/selftest/reverts/$c.diff
  out=$(./pzv check $prop 2>&1)
  rules=$(echo "$out" | grep "rule=" | sed 's/.*rule=\([A-Z0-9-]*\).*/\1/' | sort -u | tr '\n' ' ')
  if echo "$out" | grep -q "^VIOLATION"; then echo "$c $prop detected [$rules]"; else echo "$c $prop MISSED"; rc=1; fi
  git -C $REPO checkout -- .
done
git -C /verif checkout -- evidence  # evidence written while a defect was re-introduced must not be committed
exit $rc
