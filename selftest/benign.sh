#!/bin/bash
REPO=${REPO:-/repo}; export PZ_REPO=$REPO   # the batteries may be pointed at a scratch clone (REPO=/tmp/x PZ_CACHE=/tmp/y); the registered checks always use /repo
# Behaviour-preserving edits: every registered quick check must stay silent with each applied.  /repo must be clean.
if [ -n "$(git -C $REPO status --porcelain)" ]; then echo "REPO DIRTY - refusing"; exit 3; fi
cd /verif
rc=0
PROPLIST=${PROPS:-C01 C02 C03 C04 C05 C06 C07 C08 C09 C10 C11 C12 C13 C14 C15 C16 C17 C18 C19 C20}
for d in ${ONLY:-selftest/benign/*.diff}; do
  id=$(basename $d .diff)
  if ! git -C $REPO apply --check $PWD/$d 2>/dev/null; then echo "$id patch-does-not-apply"; rc=1; continue; fi
  git -C $REPO apply $PWD/$d
  if ! (cd $REPO && cargo check --offline -q -p poulpy-hal -p poulpy-core -p poulpy-cpu-ref -p poulpy-ckks -p poulpy-bin-fhe 2>/dev/null); then echo "$id DOES-NOT-COMPILE"; git -C $REPO checkout -- .; rc=1; continue; fi
  # the first check rebuilds the facts for the patched tree; the others then run in parallel on the cached facts
  first=$(echo $PROPLIST | cut -d' ' -f1)
  tmp=$(mktemp -d)
  ./pzv check $first > $tmp/$first.out 2>&1
  echo $PROPLIST | tr ' ' '\n' | tail -n +2 | xargs -P 8 -I{} sh -c "./pzv check {} > $tmp/{}.out 2>&1"
  alarms=""
  for p in $PROPLIST; do
    if grep -q "^VIOLATION" $tmp/$p.out; then alarms="$alarms $p[$(grep "rule=" $tmp/$p.out | sed 's/.*rule=\([A-Z0-9-]*\).*/\1/' | sort -u | tr '\n' ' ')]"; fi
  done
  rm -rf $tmp
  if [ -z "$alarms" ]; then echo "$id silent"; else echo "$id FALSE-ALARM:$alarms"; rc=1; fi
  git -C $REPO checkout -- .
done
git -C /verif checkout -- evidence
exit $rc
