#!/bin/bash
# Behaviour-preserving edits: every registered quick check must stay silent with each applied.  /repo must be clean.
if [ -n "$(git -C /repo status --porcelain)" ]; then echo "REPO DIRTY - refusing"; exit 3; fi
cd /verif
rc=0
for d in ${ONLY:-selftest/benign/*.diff}; do
  id=$(basename $d .diff)
  if ! git -C /repo apply --check $PWD/$d 2>/dev/null; then echo "$id patch-does-not-apply"; rc=1; continue; fi
  git -C /repo apply $PWD/$d
  if ! (cd /repo && cargo check --offline -q -p poulpy-hal -p poulpy-core -p poulpy-cpu-ref -p poulpy-ckks -p poulpy-bin-fhe 2>/dev/null); then echo "$id DOES-NOT-COMPILE"; git -C /repo checkout -- .; rc=1; continue; fi
  alarms=""
  for p in ${PROPS:-C02 C03 C04 C05 C06 C07 C08 C09 C10 C11 C12 C13 C15 C16 C17 C18 C19 C20}; do
    out=$(./pzv check $p 2>&1)
    if echo "$out" | grep -q "^VIOLATION"; then alarms="$alarms $p[$(echo "$out" | grep "rule=" | sed 's/.*rule=\([A-Z0-9-]*\).*/\1/' | sort -u | tr '\n' ' ')]"; fi
  done
  if [ -z "$alarms" ]; then echo "$id silent"; else echo "$id FALSE-ALARM:$alarms"; rc=1; fi
  git -C /repo checkout -- .
done
git -C /verif checkout -- evidence
exit $rc
